// Driver TU for C20: includes only real gdstk headers and asks the compiler for the template
// instantiations the contracts talk about (DESIGN.md 2.2).  Nothing here is verified code.
#include <gdstk/gdstk.hpp>
namespace gdstk {
template struct Set<uint64_t>;
template struct Map<uint64_t>;
template struct Array<uint64_t>;
template struct Array<double>;
template struct Array<Vec2>;
template void sort<double>(double*, int64_t);
template void sort<double>(double*, int64_t, bool (*)(const double&, const double&));
template void heap_sort<double>(double*, int64_t, bool (*)(const double&, const double&));
template void insertion_sort<double>(double*, int64_t, bool (*)(const double&, const double&));
template uint64_t hash<uint64_t>(uint64_t);
template bool default_sorted<double>(const double&, const double&);
}
