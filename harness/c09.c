/* harnesses for C09 */
uint64_t IN_n, IN_gk;
double IN_vx, IN_vy;
static Polygon c09_poly;
Vec2 OUT_min, OUT_max;
#ifdef VF_ENTRY_h_poly_bbox
void h_poly_bbox(void) {
    VF_IN(u64, IN_n); VF_IN(u64, IN_gk);
    GK = IN_gk;
    memset(&c09_poly, 0, sizeof c09_poly);
#ifdef VF_CBMC
    VF_ASSUME(IN_n <= 0x10000000);
#else
    VF_ASSUME(IN_n <= 4096);
#endif
    c09_poly.point_array.count = IN_n;
    c09_poly.point_array.capacity = IN_n;
    c09_poly.point_array.items = IN_n ? (Vec2 *)malloc(sizeof(Vec2) * IN_n) : NULL;
    VF_ASSUME(IN_n == 0 || c09_poly.point_array.items != NULL);
#ifndef VF_CBMC
    for (uint64_t i = 0; i < IN_n; i++) { c09_poly.point_array.items[i].x = 0; c09_poly.point_array.items[i].y = 0; }
    if (GK < IN_n) { c09_poly.point_array.items[GK].x = vf_bits_double(vf_input("IN_vx", 0)); c09_poly.point_array.items[GK].y = vf_bits_double(vf_input("IN_vy", 0)); }
#else
    if (GK < IN_n) { IN_vx = nondet_double(); IN_vy = nondet_double(); c09_poly.point_array.items[GK].x = IN_vx; c09_poly.point_array.items[GK].y = IN_vy; }
#endif
    Polygon *this_ = &c09_poly;
    Vec2 *min = &OUT_min, *max = &OUT_max;
    VF_CALL_V(Polygon__bounding_box, this_, min, max);
}
#endif

#ifdef VF_ENTRY_h_poly_bbox_rep
void h_poly_bbox_rep(void) {
    VF_IN(u64, IN_n); VF_IN(u64, IN_gk); VF_IN(u64, IN_next); VF_IN_ARR(IN_ex); VF_IN_ARR(IN_ey);
    GK = IN_gk;
    memset(&c09_poly, 0, sizeof c09_poly);
    VF_ASSUME(IN_n <= 0x10000000);
    c09_poly.point_array.count = IN_n; c09_poly.point_array.capacity = IN_n;
    c09_poly.point_array.items = IN_n ? (Vec2 *)malloc(sizeof(Vec2) * IN_n) : NULL;
    VF_ASSUME(IN_n == 0 || c09_poly.point_array.items != NULL);
    if (GK < IN_n) { IN_vx = nondet_double(); IN_vy = nondet_double(); c09_poly.point_array.items[GK].x = IN_vx; c09_poly.point_array.items[GK].y = IN_vy; }
    c09_poly.repetition.type = RepetitionType_Rectangular;   /* the kind does not matter: get_extrema is modelled */
    Polygon *this_ = &c09_poly;
    Vec2 *min = &OUT_min, *max = &OUT_max;
    Polygon__bounding_box(this_, min, max);
}
#endif
