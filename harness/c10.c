/* harnesses for C10: a polygon with any number of vertices */
uint64_t IN_n, IN_gk;
double IN_a, IN_b, IN_c, IN_d, IN_e, IN_f;
bool IN_xr;
#if defined(VF_ENTRY_h_poly_translate) || defined(VF_ENTRY_h_poly_scale) || defined(VF_ENTRY_h_poly_mirror) || defined(VF_ENTRY_h_poly_rotate) || defined(VF_ENTRY_h_poly_transform)
static Polygon c10_poly;
static void c10_poly_state(void) {
    VF_IN(u64, IN_n); VF_IN(u64, IN_gk);
    GK = IN_gk;
    memset(&c10_poly, 0, sizeof c10_poly);
#ifdef VF_CBMC
    VF_ASSUME(IN_n <= 0x10000000);
#else
    VF_ASSUME(IN_n <= 4096);
#endif
    c10_poly.point_array.count = IN_n;
    c10_poly.point_array.capacity = IN_n;
    c10_poly.point_array.items = IN_n ? (Vec2 *)malloc(sizeof(Vec2) * IN_n) : NULL;
    VF_ASSUME(IN_n == 0 || c10_poly.point_array.items != NULL);
#ifndef VF_CBMC
    for (uint64_t i = 0; i < IN_n; i++) { c10_poly.point_array.items[i].x = 0; c10_poly.point_array.items[i].y = 0; }
    if (GK < IN_n) { c10_poly.point_array.items[GK].x = vf_bits_double(vf_input("IN_vx", 0)); c10_poly.point_array.items[GK].y = vf_bits_double(vf_input("IN_vy", 0)); }
#else
    if (GK < IN_n) { IN_d = nondet_double(); IN_e = nondet_double(); c10_poly.point_array.items[GK].x = IN_d; c10_poly.point_array.items[GK].y = IN_e; }
#endif
}
#endif
#ifdef VF_ENTRY_h_poly_translate
void h_poly_translate(void) {
    c10_poly_state();
    Polygon *this_ = &c10_poly;
    Vec2 v; VF_IN(double, IN_a); VF_IN(double, IN_b); v.x = IN_a; v.y = IN_b;
    VF_CALL_V(Polygon__translate, this_, v);
}
#endif
#ifdef VF_ENTRY_h_poly_scale
void h_poly_scale(void) {
    c10_poly_state();
    Polygon *this_ = &c10_poly;
    Vec2 scale_factor, center; VF_IN(double, IN_a); VF_IN(double, IN_b); VF_IN(double, IN_c); VF_IN(double, IN_f);
    scale_factor.x = IN_a; scale_factor.y = IN_b; center.x = IN_c; center.y = IN_f;
    VF_CALL_V(Polygon__scale, this_, scale_factor, center);
}
#endif
#ifdef VF_ENTRY_h_poly_mirror
void h_poly_mirror(void) {
    c10_poly_state();
    Polygon *this_ = &c10_poly;
    Vec2 p0, p1; VF_IN(double, IN_a); VF_IN(double, IN_b); VF_IN(double, IN_c); VF_IN(double, IN_f);
    p0.x = IN_a; p0.y = IN_b; p1.x = IN_c; p1.y = IN_f;
    VF_CALL_V(Polygon__mirror, this_, p0, p1);
}
#endif
#ifdef VF_ENTRY_h_poly_rotate
void h_poly_rotate(void) {
    c10_poly_state();
    Polygon *this_ = &c10_poly;
    double angle; Vec2 center; VF_IN(double, IN_a); VF_IN(double, IN_b); VF_IN(double, IN_c);
    angle = IN_a; center.x = IN_b; center.y = IN_c;
    VF_CALL_V(Polygon__rotate, this_, angle, center);
}
#endif
#ifdef VF_ENTRY_h_poly_transform
void h_poly_transform(void) {
    c10_poly_state();
    Polygon *this_ = &c10_poly;
    double magnification, rotation; bool x_reflection; Vec2 origin;
    VF_IN(double, IN_a); VF_IN(double, IN_b); VF_IN(double, IN_c); VF_IN(double, IN_f); VF_IN(bool, IN_xr);
    magnification = IN_a; rotation = IN_b; origin.x = IN_c; origin.y = IN_f; x_reflection = IN_xr;
    VF_CALL_V(Polygon__transform, this_, magnification, x_reflection, rotation, origin);
}
#endif

#if defined(VF_ENTRY_h_label_transform) || defined(VF_ENTRY_h_reference_transform)
double IN_ox, IN_oy, IN_rot0, IN_mag0; bool IN_xr0;
#ifdef VF_ENTRY_h_label_transform
#define PLACED Label
#define PLACED_FN Label__transform
#define PLACED_H h_label_transform
#else
#define PLACED Reference
#define PLACED_FN Reference__transform
#define PLACED_H h_reference_transform
#endif
static PLACED c10_placed;
void PLACED_H(void) {
    memset(&c10_placed, 0, sizeof c10_placed);
    VF_IN(double, IN_ox); VF_IN(double, IN_oy); VF_IN(double, IN_rot0); VF_IN(double, IN_mag0); VF_IN(bool, IN_xr0);
    c10_placed.origin.x = IN_ox; c10_placed.origin.y = IN_oy; c10_placed.rotation = IN_rot0;
    c10_placed.magnification = IN_mag0; c10_placed.x_reflection = IN_xr0;
    PLACED *this_ = &c10_placed;
    double mag, rot; bool x_refl; Vec2 orig;
    VF_IN(double, IN_a); VF_IN(double, IN_b); VF_IN(double, IN_c); VF_IN(double, IN_d); VF_IN(bool, IN_xr);
    mag = IN_a; rot = IN_b; orig.x = IN_c; orig.y = IN_d; x_refl = IN_xr;
    VF_CALL_V(PLACED_FN, this_, mag, x_refl, rot, orig);
}
#endif
