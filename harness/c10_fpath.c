/* harness for C10: FlexPath::transform (bounded: <= 2 spine points, <= 2 elements) */
uint64_t IN_n, IN_ne, IN_gk, IN_gk2;
double IN_sp[4], IN_wo[8], IN_a, IN_b, IN_c, IN_d;
bool IN_sw, IN_xr;
static FlexPath c10_fp;
static FlexPathElement c10_els[2];   /* static, typed objects: cheap to dereference for CBMC */
static Vec2 c10_spine[2], c10_w0[2], c10_w1[2];
static void c10_fp_state(void) {
    VF_IN(u64, IN_n); VF_IN(u64, IN_ne); VF_IN(u64, IN_gk); VF_IN(u64, IN_gk2); VF_IN(bool, IN_sw);
    VF_IN_ARR(IN_sp); VF_IN_ARR(IN_wo);
    VF_ASSUME(IN_n <= 2 && IN_ne <= 2);
#ifdef VF_FP_MAXN
    VF_ASSUME(IN_n <= VF_FP_MAXN && IN_ne <= VF_FP_MAXNE);
#endif
    GK = IN_gk; GK2 = IN_gk2;
    memset(&c10_fp, 0, sizeof c10_fp);
    c10_fp.scale_width = IN_sw;
    c10_fp.spine.point_array.count = IN_n; c10_fp.spine.point_array.capacity = 2;
    c10_fp.spine.point_array.items = c10_spine;
    c10_fp.num_elements = IN_ne;
    c10_fp.elements = c10_els;
#ifndef VF_CBMC
    memset(c10_fp.elements, 0, sizeof(FlexPathElement) * 2);   /* CBMC: the other element fields stay arbitrary */
#endif
    c10_fp.spine.point_array.items[0].x = IN_sp[0]; c10_fp.spine.point_array.items[0].y = IN_sp[1];
    c10_fp.spine.point_array.items[1].x = IN_sp[2]; c10_fp.spine.point_array.items[1].y = IN_sp[3];
    Vec2 *w0 = c10_w0, *w1 = c10_w1;
    w0[0].x = IN_wo[0]; w0[0].y = IN_wo[1]; w0[1].x = IN_wo[2]; w0[1].y = IN_wo[3];
    w1[0].x = IN_wo[4]; w1[0].y = IN_wo[5]; w1[1].x = IN_wo[6]; w1[1].y = IN_wo[7];
    c10_fp.elements[0].half_width_and_offset.items = w0; c10_fp.elements[0].half_width_and_offset.count = IN_n; c10_fp.elements[0].half_width_and_offset.capacity = 2;
    c10_fp.elements[1].half_width_and_offset.items = w1; c10_fp.elements[1].half_width_and_offset.count = IN_n; c10_fp.elements[1].half_width_and_offset.capacity = 2;
}
#ifdef VF_ENTRY_h_fpath_transform
void h_fpath_transform(void) {
    c10_fp_state();
    FlexPath *this_ = &c10_fp;
    double magnification, rotation; bool x_reflection; Vec2 origin;
    VF_IN(double, IN_a); VF_IN(double, IN_b); VF_IN(double, IN_c); VF_IN(double, IN_d); VF_IN(bool, IN_xr);
    magnification = IN_a; rotation = IN_b; origin.x = IN_c; origin.y = IN_d; x_reflection = IN_xr;
    VF_CALL_V(FlexPath__transform, this_, magnification, x_reflection, rotation, origin);
}
#endif
#ifdef VF_ENTRY_h_fpath_scale
void h_fpath_scale(void) {
    c10_fp_state();
    FlexPath *this_ = &c10_fp;
    double scael_factor; Vec2 center;
    VF_IN(double, IN_a); VF_IN(double, IN_b); VF_IN(double, IN_c);
    scael_factor = IN_a; center.x = IN_b; center.y = IN_c;
    VF_CALL_V(FlexPath__scale, this_, scael_factor, center);
}
#endif
#ifdef VF_ENTRY_h_fpath_mirror
void h_fpath_mirror(void) {
    c10_fp_state();
    FlexPath *this_ = &c10_fp;
    Vec2 p0, p1;
    VF_IN(double, IN_a); VF_IN(double, IN_b); VF_IN(double, IN_c); VF_IN(double, IN_d);
    p0.x = IN_a; p0.y = IN_b; p1.x = IN_c; p1.y = IN_d;
    VF_CALL_V(FlexPath__mirror, this_, p0, p1);
}
#endif
