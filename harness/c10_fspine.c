/* harnesses for C10: FlexPath::translate / rotate (spine of any length) */
uint64_t IN_n, IN_gk;
double IN_a, IN_b, IN_c, IN_d, IN_e;
static FlexPath c10_fs;
static void c10_fs_state(void) {
    VF_IN(u64, IN_n); VF_IN(u64, IN_gk);
    GK = IN_gk;
    memset(&c10_fs, 0, sizeof c10_fs);
#ifdef VF_CBMC
    VF_ASSUME(IN_n <= 0x10000000);
#else
    VF_ASSUME(IN_n <= 4096);
#endif
    c10_fs.spine.point_array.count = IN_n;
    c10_fs.spine.point_array.capacity = IN_n;
    c10_fs.spine.point_array.items = IN_n ? (Vec2 *)malloc(sizeof(Vec2) * IN_n) : NULL;
    VF_ASSUME(IN_n == 0 || c10_fs.spine.point_array.items != NULL);
    VF_IN(double, IN_d); VF_IN(double, IN_e);
#ifndef VF_CBMC
    for (uint64_t i = 0; i < IN_n; i++) { c10_fs.spine.point_array.items[i].x = 0; c10_fs.spine.point_array.items[i].y = 0; }
#endif
    if (GK < IN_n) { c10_fs.spine.point_array.items[GK].x = IN_d; c10_fs.spine.point_array.items[GK].y = IN_e; }
}
#ifdef VF_ENTRY_h_fpath_translate
void h_fpath_translate(void) {
    c10_fs_state();
    FlexPath *this_ = &c10_fs;
    Vec2 v; VF_IN(double, IN_a); VF_IN(double, IN_b); v.x = IN_a; v.y = IN_b;
    VF_CALL_V(FlexPath__translate, this_, v);
}
#endif
#ifdef VF_ENTRY_h_fpath_rotate
void h_fpath_rotate(void) {
    c10_fs_state();
    FlexPath *this_ = &c10_fs;
    double angle; Vec2 center; VF_IN(double, IN_a); VF_IN(double, IN_b); VF_IN(double, IN_c);
    angle = IN_a; center.x = IN_b; center.y = IN_c;
    VF_CALL_V(FlexPath__rotate, this_, angle, center);
}
#endif
