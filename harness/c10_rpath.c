/* harnesses for C10: RobustPath transforms (matrix accumulation, offset / width scaling) */
uint64_t IN_n, IN_gk;
double IN_t0, IN_t1, IN_t2, IN_t3, IN_t4, IN_t5, IN_os, IN_ws, IN_a, IN_b, IN_c, IN_d, IN_ex, IN_ey;
bool IN_sw, IN_xr;
static RobustPath c10_rp;
static void c10_rp_state(void) {
    VF_IN(u64, IN_n); VF_IN(u64, IN_gk);
    GK = IN_gk;
    memset(&c10_rp, 0, sizeof c10_rp);
    VF_IN(double, IN_t0); VF_IN(double, IN_t1); VF_IN(double, IN_t2); VF_IN(double, IN_t3); VF_IN(double, IN_t4); VF_IN(double, IN_t5);
    VF_IN(double, IN_os); VF_IN(double, IN_ws); VF_IN(bool, IN_sw);
    c10_rp.trafo[0] = IN_t0; c10_rp.trafo[1] = IN_t1; c10_rp.trafo[2] = IN_t2;
    c10_rp.trafo[3] = IN_t3; c10_rp.trafo[4] = IN_t4; c10_rp.trafo[5] = IN_t5;
    c10_rp.offset_scale = IN_os; c10_rp.width_scale = IN_ws; c10_rp.scale_width = IN_sw;
#ifdef VF_CBMC
    VF_ASSUME(IN_n <= 0x100000);
#else
    VF_ASSUME(IN_n <= 4096);
#endif
    c10_rp.num_elements = IN_n;
#ifdef VF_SMALL_ELEMS
    VF_ASSUME(IN_n <= 2);
    c10_rp.elements = (RobustPathElement *)malloc(sizeof(RobustPathElement) * 2);   /* constant-size block for the bounded group */
    VF_ASSUME(c10_rp.elements != NULL);
#else
    c10_rp.elements = IN_n ? (RobustPathElement *)malloc(sizeof(RobustPathElement) * IN_n) : NULL;
    VF_ASSUME(IN_n == 0 || c10_rp.elements != NULL);
#endif
#ifndef VF_CBMC
    if (c10_rp.elements) memset(c10_rp.elements, 0, sizeof(RobustPathElement) * (IN_n > 2 ? IN_n : 2));
#endif
    VF_IN(double, IN_ex); VF_IN(double, IN_ey);
    if (GK < IN_n) { c10_rp.elements[GK].end_extensions.x = IN_ex; c10_rp.elements[GK].end_extensions.y = IN_ey; }
}
#ifdef VF_ENTRY_h_rpath_translate
void h_rpath_translate(void) {
    c10_rp_state();
    RobustPath *this_ = &c10_rp;
    Vec2 v; VF_IN(double, IN_a); VF_IN(double, IN_b); v.x = IN_a; v.y = IN_b;
    VF_CALL_V(RobustPath__translate, this_, v);
}
#endif
#ifdef VF_ENTRY_h_rpath_x_reflection
void h_rpath_x_reflection(void) {
    c10_rp_state();
    RobustPath *this_ = &c10_rp;
    VF_CALL_V(RobustPath__x_reflection, this_);
}
#endif
#ifdef VF_ENTRY_h_rpath_simple_rotate
void h_rpath_simple_rotate(void) {
    c10_rp_state();
    RobustPath *this_ = &c10_rp;
    double angle; VF_IN(double, IN_a); angle = IN_a;
    VF_CALL_V(RobustPath__simple_rotate, this_, angle);
}
#endif
#ifdef VF_ENTRY_h_rpath_simple_scale
void h_rpath_simple_scale(void) {
    c10_rp_state();
    RobustPath *this_ = &c10_rp;
    double scale_factor; VF_IN(double, IN_a); scale_factor = IN_a;
    VF_CALL_V(RobustPath__simple_scale, this_, scale_factor);
}
#endif
#ifdef VF_ENTRY_h_rpath_scale
void h_rpath_scale(void) {
    c10_rp_state();
    RobustPath *this_ = &c10_rp;
    double scale_factor; Vec2 center; VF_IN(double, IN_a); VF_IN(double, IN_b); VF_IN(double, IN_c);
    scale_factor = IN_a; center.x = IN_b; center.y = IN_c;
    VF_CALL_V(RobustPath__scale, this_, scale_factor, center);
}
#endif
#ifdef VF_ENTRY_h_rpath_rotate
void h_rpath_rotate(void) {
    c10_rp_state();
    RobustPath *this_ = &c10_rp;
    double angle; Vec2 center; VF_IN(double, IN_a); VF_IN(double, IN_b); VF_IN(double, IN_c);
    angle = IN_a; center.x = IN_b; center.y = IN_c;
    VF_CALL_V(RobustPath__rotate, this_, angle, center);
}
#endif
#ifdef VF_ENTRY_h_rpath_transform
void h_rpath_transform(void) {
    c10_rp_state();
    RobustPath *this_ = &c10_rp;
    double magnification, rotation; bool x_refl; Vec2 origin;
    VF_IN(double, IN_a); VF_IN(double, IN_b); VF_IN(double, IN_c); VF_IN(double, IN_d); VF_IN(bool, IN_xr);
    magnification = IN_a; rotation = IN_b; origin.x = IN_c; origin.y = IN_d; x_refl = IN_xr;
    VF_CALL_V(RobustPath__transform, this_, magnification, x_refl, rotation, origin);
}
#endif
