/* harnesses for C11 (repetitions) */
uint64_t IN_type, IN_cols, IN_rows, IN_n, IN_gk;
double IN_a, IN_b, IN_c, IN_d, IN_cv, IN_cs[3], IN_os[4];
static Repetition c11_rep;
static Array_Vec2 c11_result;
static void c11_state(void) {
    VF_IN(u64, IN_type); VF_IN(u64, IN_cols); VF_IN(u64, IN_rows); VF_IN(u64, IN_n); VF_IN(u64, IN_gk);
    VF_IN(double, IN_a); VF_IN(double, IN_b); VF_IN(double, IN_c); VF_IN(double, IN_d);
    GK = IN_gk;
    memset(&c11_rep, 0, sizeof c11_rep);
    VF_ASSUME(IN_type <= 5);
#ifdef VF_FIXED_TYPE
    IN_type = VF_FIXED_TYPE;   /* this group fixes the repetition kind (keeps the other kinds' branches out of the symbolic execution) */
#endif
#ifdef VF_EXPLICIT_ONLY
    VF_ASSUME((IN_type == 4 || IN_type == 5) && IN_n <= 3);
#endif
#ifdef VF_EXPLICIT_KINDS
    VF_ASSUME(IN_type == 4 || IN_type == 5);
#endif
#ifdef VF_SMALL_EXPLICIT
    VF_ASSUME(IN_type == 1 || IN_type == 2 || ((IN_type == 4 || IN_type == 5) && IN_n >= 1 && IN_n <= 2));
#endif
#ifdef VF_LATTICE_ONLY
    VF_ASSUME(IN_type == 1 || IN_type == 2);
#endif
    c11_rep.type = (RepetitionType)IN_type;
    if (IN_type == 1 || IN_type == 2) {
        c11_rep.columns = IN_cols; c11_rep.rows = IN_rows;
        c11_rep.v1.x = IN_a; c11_rep.v1.y = IN_b; c11_rep.v2.x = IN_c; c11_rep.v2.y = IN_d;
    } else if (IN_type == 4 || IN_type == 5) {
#ifdef VF_CBMC
        VF_ASSUME(IN_n <= 0x10000000);
#else
        VF_ASSUME(IN_n <= 4096);
#endif
        c11_rep.coords.count = IN_n; c11_rep.coords.capacity = IN_n;
#if defined(VF_EXPLICIT_ONLY) || defined(VF_SMALL_EXPLICIT)
        c11_rep.coords.items = IN_n ? (double *)malloc(sizeof(double) * 3) : NULL;   /* constant-size block for the bounded groups */
#else
        c11_rep.coords.items = IN_n ? (double *)malloc(sizeof(double) * IN_n) : NULL;
#endif
        VF_ASSUME(IN_n == 0 || c11_rep.coords.items != NULL);
#ifdef VF_CBMC
#if defined(VF_EXPLICIT_ONLY) || defined(VF_SMALL_EXPLICIT)
        for (int k = 0; k < 3; k++) if ((uint64_t)k < IN_n) { IN_cs[k] = nondet_double(); VF_ASSUME(IN_cs[k] == IN_cs[k]); c11_rep.coords.items[k] = IN_cs[k]; }
#else
        if (GK < IN_n) { IN_cv = nondet_double(); c11_rep.coords.items[GK] = IN_cv; }
#endif
#else
        for (uint64_t k = 0; k < IN_n; k++) c11_rep.coords.items[k] = 0;
        if (GK < IN_n) c11_rep.coords.items[GK] = vf_bits_double(vf_input("IN_cv", 0));
#if defined(VF_EXPLICIT_ONLY) || defined(VF_SMALL_EXPLICIT)
        { char key[32]; for (int k = 0; k < 3; k++) if ((uint64_t)k < IN_n) { snprintf(key, sizeof key, "IN_cs[%d]", k); c11_rep.coords.items[k] = vf_bits_double(vf_input(key, 0)); } }
#endif
#endif
    } else if (IN_type == 3) {
#ifdef VF_SMALL_OFFSETS
        /* Explicit kind with 0..2 listed offsets, every component arbitrary (bounded groups) */
        VF_ASSUME(IN_n <= 2);
        c11_rep.offsets.count = IN_n; c11_rep.offsets.capacity = 2;
        c11_rep.offsets.items = (Vec2 *)malloc(sizeof(Vec2) * 2);
        VF_ASSUME(c11_rep.offsets.items != NULL);
#ifdef VF_CBMC
        IN_os[0] = nondet_double(); IN_os[1] = nondet_double(); IN_os[2] = nondet_double(); IN_os[3] = nondet_double();
#else
        { char key[32]; for (int k = 0; k < 4; k++) { snprintf(key, sizeof key, "IN_os[%d]", k); IN_os[k] = vf_bits_double(vf_input(key, 0)); } }
#endif
        c11_rep.offsets.items[0].x = IN_os[0]; c11_rep.offsets.items[0].y = IN_os[1];
        c11_rep.offsets.items[1].x = IN_os[2]; c11_rep.offsets.items[1].y = IN_os[3];
#else
        c11_rep.offsets.count = 0; c11_rep.offsets.capacity = 0; c11_rep.offsets.items = NULL;
#endif
    }
}
#ifdef VF_ENTRY_h_rep_count
void h_rep_count(void) {
    c11_state();
    Repetition *this_ = &c11_rep;
    VF_CALL_R(uint64_t, r, Repetition__get_count, this_);
    (void)r;
}
#endif
#ifdef VF_ENTRY_h_rep_extrema
void h_rep_extrema(void) {
    c11_state();
    Repetition *this_ = &c11_rep;
    memset(&c11_result, 0, sizeof c11_result);
    Array_Vec2 *result = &c11_result;
    VF_CALL_V(Repetition__get_extrema, this_, result);
}
#endif

#ifdef VF_ENTRY_h_rep_transform
double IN_mag, IN_rot; bool IN_xr;
void h_rep_transform(void) {
    c11_state();
    Repetition *this_ = &c11_rep;
    double magnification, rotation; bool x_reflection;
    VF_IN(double, IN_mag); VF_IN(double, IN_rot); VF_IN(bool, IN_xr);
    magnification = IN_mag; rotation = IN_rot; x_reflection = IN_xr;
#ifdef VF_FINITE_ONLY
    VF_ASSUME(IN_mag == IN_mag && IN_rot == IN_rot && IN_mag - IN_mag == 0.0 && IN_rot - IN_rot == 0.0 && IN_cs[0] - IN_cs[0] == 0.0 && IN_cs[1] - IN_cs[1] == 0.0);
#endif
    VF_CALL_V(Repetition__transform, this_, magnification, x_reflection, rotation);
}
#endif

#ifdef VF_ENTRY_h_rep_offsets
uint64_t IN_gi, IN_gj;
void h_rep_offsets(void) {
    c11_state();
    VF_IN(u64, IN_gi); VF_IN(u64, IN_gj); GI = IN_gi; GJ = IN_gj;
    Repetition *this_ = &c11_rep;
    memset(&c11_result, 0, sizeof c11_result);
    Array_Vec2 *result = &c11_result;
    VF_CALL_V(Repetition__get_offsets, this_, result);
}
#endif
