/* harness for Reference::apply_repetition (C11): the repetition denotes IN_noff <= 3 offsets (the first
 * one is the zero vector); the result must be exactly one translated, otherwise identical copy per
 * non-zero vector, and the original is left without repetition.  Plain assertions; bounded. */
double IN_ox, IN_oy, IN_rot, IN_mag; bool IN_xr; uint64_t IN_cols, IN_rows;
static bool c11a_same(double a, double b) { union { double d; uint64_t u; } p, q; p.d = a; q.d = b; return p.u == q.u; }
static Reference c11a_ref;
static Cell c11a_cell;
static Property c11a_prop, c11a_propcopy;
static Array_Reference_p c11a_result;
#ifdef VF_ENTRY_h_ref_apply_repetition
void h_ref_apply_repetition(void) {
    VF_IN(u64, IN_noff); VF_IN_ARR(IN_offx); VF_IN_ARR(IN_offy);
    VF_IN(double, IN_ox); VF_IN(double, IN_oy); VF_IN(double, IN_rot); VF_IN(double, IN_mag); VF_IN(bool, IN_xr);
    VF_IN(u64, IN_cols); VF_IN(u64, IN_rows);
#ifdef VF_EMPTY_REPETITION
    VF_ASSUME(IN_noff == 0);                          /* a lattice with zero columns or rows denotes no vector at all */
#else
    VF_ASSUME(IN_noff >= 1 && IN_noff <= 3);
#endif
    VF_ASSUME(IN_offx[0] == 0.0 && IN_offy[0] == 0.0);
    memset(&c11a_ref, 0, sizeof c11a_ref);
    c11a_ref.type = ReferenceType_Cell; c11a_ref.cell = &c11a_cell;
    c11a_ref.origin.x = IN_ox; c11a_ref.origin.y = IN_oy; c11a_ref.rotation = IN_rot; c11a_ref.magnification = IN_mag; c11a_ref.x_reflection = IN_xr;
#ifdef VF_EMPTY_REPETITION
    c11a_ref.repetition.type = RepetitionType_Rectangular; c11a_ref.repetition.columns = 0; c11a_ref.repetition.rows = IN_rows;
#elif defined(VF_CBMC)
    /* under CBMC the offsets come from the get_offsets model, whatever the repetition fields say */
    c11a_ref.repetition.type = RepetitionType_Rectangular; c11a_ref.repetition.columns = IN_cols; c11a_ref.repetition.rows = IN_rows;
#else
    /* natively: an explicit repetition listing the non-zero offsets, so that the real get_offsets denotes the same set */
    c11a_ref.repetition.type = RepetitionType_Explicit;
    c11a_ref.repetition.offsets.count = IN_noff - 1; c11a_ref.repetition.offsets.capacity = 2;
    c11a_ref.repetition.offsets.items = (Vec2 *)malloc(sizeof(Vec2) * 2);
    VF_ASSUME(c11a_ref.repetition.offsets.items != NULL);
    for (int k = 0; k < 2; k++) { c11a_ref.repetition.offsets.items[k].x = IN_offx[k + 1]; c11a_ref.repetition.offsets.items[k].y = IN_offy[k + 1]; }
#endif
    c11a_ref.properties = &c11a_prop; G_propcopy = &c11a_propcopy;
    memset(&c11a_result, 0, sizeof c11a_result);
    Reference *this_ = &c11a_ref;
    Reference__apply_repetition(this_, &c11a_result);
    VF_ASSERT(c11a_result.count == (IN_noff ? IN_noff - 1 : 0), "one copy per non-zero vector");
    VF_ASSERT(c11a_ref.repetition.type == RepetitionType_None, "the original is left without repetition");
    VF_ASSERT(c11a_same(c11a_ref.origin.x, IN_ox) && c11a_same(c11a_ref.origin.y, IN_oy) && c11a_ref.cell == &c11a_cell, "the original is otherwise untouched");
    for (int k = 0; k < 2; k++) if ((uint64_t)k + 1 < IN_noff && (uint64_t)k < c11a_result.count) {
        Reference *c = c11a_result.items[k];
        VF_ASSERT(c != NULL && c != this_, "copies are separate objects");
        { double ex = VF_FADD(IN_ox, IN_offx[k + 1]), ey = VF_FADD(IN_oy, IN_offy[k + 1]);
          VF_ASSERT(c11a_same(c->origin.x, ex) && c11a_same(c->origin.y, ey), "copy k is translated by offset k+1, nothing else"); }
        VF_ASSERT(c->type == ReferenceType_Cell && c->cell == &c11a_cell && c11a_same(c->rotation, IN_rot) && c11a_same(c->magnification, IN_mag) && c->x_reflection == IN_xr, "copies are otherwise identical");
        VF_ASSERT(c->properties == G_propcopy, "copies carry a copy of the properties");
    }
    VF_REACHED();
}
#endif
