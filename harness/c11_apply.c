/* harness for Reference::apply_repetition (C11): the repetition denotes IN_noff <= 3 offsets (the first
 * one is the zero vector); the result must be exactly one translated, otherwise identical copy per
 * non-zero vector, and the original is left without repetition.  Plain assertions; bounded. */
double IN_ox, IN_oy, IN_rot, IN_mag; bool IN_xr; uint64_t IN_cols, IN_rows;
static bool c11a_same(double a, double b) { union { double d; uint64_t u; } p, q; p.d = a; q.d = b; return p.u == q.u; }
static Property c11a_prop, c11a_propcopy;
#ifdef VF_ENTRY_h_ref_apply_repetition
static Reference c11a_ref;
static Cell c11a_cell;
static Array_Reference_p c11a_result;
#endif
#ifdef VF_ENTRY_h_ref_apply_repetition
void h_ref_apply_repetition(void) {
    VF_IN(u64, IN_noff); VF_IN_ARR(IN_offx); VF_IN_ARR(IN_offy);
    VF_IN(double, IN_ox); VF_IN(double, IN_oy); VF_IN(double, IN_rot); VF_IN(double, IN_mag); VF_IN(bool, IN_xr);
    VF_IN(u64, IN_cols); VF_IN(u64, IN_rows);
#ifdef VF_EMPTY_REPETITION
    VF_ASSUME(IN_noff == 0);                          /* a lattice with zero columns or rows denotes no vector at all */
#else
    VF_ASSUME(IN_noff >= 1 && IN_noff <= 3);
#endif
    VF_ASSUME(IN_offx[0] == 0.0 && IN_offy[0] == 0.0);
    memset(&c11a_ref, 0, sizeof c11a_ref);
    c11a_ref.type = ReferenceType_Cell; c11a_ref.cell = &c11a_cell;
    c11a_ref.origin.x = IN_ox; c11a_ref.origin.y = IN_oy; c11a_ref.rotation = IN_rot; c11a_ref.magnification = IN_mag; c11a_ref.x_reflection = IN_xr;
#ifdef VF_EMPTY_REPETITION
    c11a_ref.repetition.type = RepetitionType_Rectangular; c11a_ref.repetition.columns = 0; c11a_ref.repetition.rows = IN_rows;
#elif defined(VF_CBMC)
    /* under CBMC the offsets come from the get_offsets model, whatever the repetition fields say */
    c11a_ref.repetition.type = RepetitionType_Rectangular; c11a_ref.repetition.columns = IN_cols; c11a_ref.repetition.rows = IN_rows;
#else
    /* natively: an explicit repetition listing the non-zero offsets, so that the real get_offsets denotes the same set */
    c11a_ref.repetition.type = RepetitionType_Explicit;
    c11a_ref.repetition.offsets.count = IN_noff - 1; c11a_ref.repetition.offsets.capacity = 2;
    c11a_ref.repetition.offsets.items = (Vec2 *)malloc(sizeof(Vec2) * 2);
    VF_ASSUME(c11a_ref.repetition.offsets.items != NULL);
    for (int k = 0; k < 2; k++) { c11a_ref.repetition.offsets.items[k].x = IN_offx[k + 1]; c11a_ref.repetition.offsets.items[k].y = IN_offy[k + 1]; }
#endif
    c11a_ref.properties = NULL; G_propcopy = &c11a_propcopy;
    memset(&c11a_result, 0, sizeof c11a_result);
    Reference *this_ = &c11a_ref;
    Reference__apply_repetition(this_, &c11a_result);
    VF_ASSERT(c11a_result.count == (IN_noff ? IN_noff - 1 : 0), "one copy per non-zero vector");
    VF_ASSERT(c11a_ref.repetition.type == RepetitionType_None, "the original is left without repetition");
    VF_ASSERT(c11a_same(c11a_ref.origin.x, IN_ox) && c11a_same(c11a_ref.origin.y, IN_oy) && c11a_ref.cell == &c11a_cell, "the original is otherwise untouched");
    for (int k = 0; k < 2; k++) if ((uint64_t)k + 1 < IN_noff && (uint64_t)k < c11a_result.count) {
        Reference *c = c11a_result.items[k];
        VF_ASSERT(c != NULL && c != this_, "copies are separate objects");
        { double ex = VF_FADD(IN_ox, IN_offx[k + 1]), ey = VF_FADD(IN_oy, IN_offy[k + 1]);
          VF_ASSERT(c11a_same(c->origin.x, ex) && c11a_same(c->origin.y, ey), "copy k is translated by offset k+1, nothing else"); }
        VF_ASSERT(c->type == ReferenceType_Cell && c->cell == &c11a_cell && c11a_same(c->rotation, IN_rot) && c11a_same(c->magnification, IN_mag) && c->x_reflection == IN_xr, "copies are otherwise identical");
        VF_ASSERT(c->properties == NULL, "copies carry a copy of the properties");
    }
    VF_REACHED();
}
#endif

/* common input set-up for the label / polygon variants */
#if defined(VF_ENTRY_h_label_apply_repetition) || defined(VF_ENTRY_h_poly_apply_repetition)
static void c11a_inputs(Repetition *rep) {
    VF_IN(u64, IN_noff); VF_IN_ARR(IN_offx); VF_IN_ARR(IN_offy);
    VF_IN(double, IN_ox); VF_IN(double, IN_oy); VF_IN(double, IN_rot); VF_IN(double, IN_mag); VF_IN(bool, IN_xr);
    VF_IN(u64, IN_cols); VF_IN(u64, IN_rows);
#ifdef VF_EMPTY_REPETITION
    VF_ASSUME(IN_noff == 0);
    rep->type = RepetitionType_Rectangular; rep->columns = 0; rep->rows = IN_rows;
#else
    VF_ASSUME(IN_noff >= 1 && IN_noff <= 3);
    VF_ASSUME(IN_offx[0] == 0.0 && IN_offy[0] == 0.0);
#ifdef VF_CBMC
    rep->type = RepetitionType_Rectangular; rep->columns = IN_cols; rep->rows = IN_rows;
#else
    rep->type = RepetitionType_Explicit;
    rep->offsets.count = IN_noff - 1; rep->offsets.capacity = 2;
    rep->offsets.items = (Vec2 *)malloc(sizeof(Vec2) * 2);
    for (int k = 0; k < 2; k++) { rep->offsets.items[k].x = IN_offx[k + 1]; rep->offsets.items[k].y = IN_offy[k + 1]; }
#endif
#endif
    G_propcopy = &c11a_propcopy;
}
#endif
#ifdef VF_ENTRY_h_label_apply_repetition
static Label c11a_label;
static Array_Label_p c11a_lresult;
static char c11a_text[2] = "t";
uint64_t IN_tag;
void h_label_apply_repetition(void) {
    memset(&c11a_label, 0, sizeof c11a_label);
    c11a_inputs(&c11a_label.repetition);
    VF_IN(u64, IN_tag);
    c11a_label.tag = IN_tag; c11a_label.text = c11a_text;
    c11a_label.origin.x = IN_ox; c11a_label.origin.y = IN_oy; c11a_label.rotation = IN_rot; c11a_label.magnification = IN_mag; c11a_label.x_reflection = IN_xr;
    c11a_label.properties = NULL;
    memset(&c11a_lresult, 0, sizeof c11a_lresult);
    Label *this_ = &c11a_label;
    Label__apply_repetition(this_, &c11a_lresult);
    VF_ASSERT(c11a_lresult.count == (IN_noff ? IN_noff - 1 : 0), "one copy per non-zero vector");
    VF_ASSERT(c11a_label.repetition.type == RepetitionType_None, "the original is left without repetition");
    VF_ASSERT(c11a_same(c11a_label.origin.x, IN_ox) && c11a_same(c11a_label.origin.y, IN_oy) && c11a_label.text == c11a_text && c11a_label.tag == IN_tag, "the original is otherwise untouched");
    for (int k = 0; k < 2; k++) if ((uint64_t)k + 1 < IN_noff && (uint64_t)k < c11a_lresult.count) {
        Label *c = c11a_lresult.items[k];
        VF_ASSERT(c != NULL && c != this_, "copies are separate objects");
        { double ex = VF_FADD(IN_ox, IN_offx[k + 1]), ey = VF_FADD(IN_oy, IN_offy[k + 1]);
          VF_ASSERT(c11a_same(c->origin.x, ex) && c11a_same(c->origin.y, ey), "copy k is translated by offset k+1, nothing else"); }
        VF_ASSERT(c->tag == IN_tag && c->text != NULL && c->text != c11a_text && c->text[0] == 't' && c->text[1] == 0, "copies carry the same tag and their own copy of the text");
        VF_ASSERT(c11a_same(c->rotation, IN_rot) && c11a_same(c->magnification, IN_mag) && c->x_reflection == IN_xr && c->properties == NULL, "copies are otherwise identical");
    }
    VF_REACHED();
}
#endif
#ifdef VF_ENTRY_h_poly_apply_repetition
static Polygon c11a_poly;
static Array_Polygon_p c11a_presult;
uint64_t IN_tag, IN_cnt;
double IN_vx[2], IN_vy[2];
void h_poly_apply_repetition(void) {
    memset(&c11a_poly, 0, sizeof c11a_poly);
    c11a_inputs(&c11a_poly.repetition);
    VF_IN(u64, IN_tag); VF_IN(u64, IN_cnt); VF_IN_ARR(IN_vx); VF_IN_ARR(IN_vy);
    VF_ASSUME(IN_cnt <= 2);
    c11a_poly.tag = IN_tag;
    c11a_poly.point_array.count = IN_cnt; c11a_poly.point_array.capacity = 2;
    c11a_poly.point_array.items = (Vec2 *)malloc(sizeof(Vec2) * 2);
    VF_ASSUME(c11a_poly.point_array.items != NULL);
    for (int k = 0; k < 2; k++) { c11a_poly.point_array.items[k].x = IN_vx[k]; c11a_poly.point_array.items[k].y = IN_vy[k]; }
    c11a_poly.properties = NULL;
    memset(&c11a_presult, 0, sizeof c11a_presult);
    Polygon *this_ = &c11a_poly;
    Polygon__apply_repetition(this_, &c11a_presult);
    VF_ASSERT(c11a_presult.count == (IN_noff ? IN_noff - 1 : 0), "one copy per non-zero vector");
    VF_ASSERT(c11a_poly.repetition.type == RepetitionType_None && c11a_poly.point_array.count == IN_cnt && c11a_poly.tag == IN_tag, "the original is left without repetition and otherwise untouched");
    for (int k = 0; k < 2; k++) if ((uint64_t)k + 1 < IN_noff && (uint64_t)k < c11a_presult.count) {
        Polygon *c = c11a_presult.items[k];
        VF_ASSERT(c != NULL && c != this_ && c->point_array.count == IN_cnt && (IN_cnt == 0 || c->point_array.items != c11a_poly.point_array.items), "copies are separate objects with their own vertices");
        for (int j = 0; j < 2; j++) if ((uint64_t)j < IN_cnt) {
            double ex = VF_FADD(IN_vx[j], IN_offx[k + 1]), ey = VF_FADD(IN_vy[j], IN_offy[k + 1]);
            VF_ASSERT(c11a_same(c->point_array.items[j].x, ex) && c11a_same(c->point_array.items[j].y, ey), "every vertex of copy k is translated by offset k+1");
            VF_ASSERT(c11a_same(c11a_poly.point_array.items[j].x, IN_vx[j]) && c11a_same(c11a_poly.point_array.items[j].y, IN_vy[j]), "the original's vertices are untouched");
        }
        VF_ASSERT(c->tag == IN_tag && c->properties == NULL, "copies carry the tag and a copy of the properties");
    }
    VF_REACHED();
}
#endif
