/* harness for C12 (narrow): fracturing a polygon that already fits the vertex limit, or with a limit
 * below five.  Every polygon of up to 3 vertices (any coordinates), any limit; plain assertions. */
uint64_t IN_cnt, IN_maxp, IN_tag, IN_rtype, IN_cols, IN_rows;
double IN_vx[3], IN_vy[3], IN_prec;

static Polygon c12_poly;
static Property c12_prop, c12_propcopy;
static Array_Polygon_p c12_result;
#ifdef VF_ENTRY_h_fracture_fits
void h_fracture_fits(void) {
    VF_IN(u64, IN_cnt); VF_IN(u64, IN_maxp); VF_IN(u64, IN_tag); VF_IN(u64, IN_rtype); VF_IN(u64, IN_cols); VF_IN(u64, IN_rows);
    VF_IN_ARR(IN_vx); VF_IN_ARR(IN_vy); VF_IN(double, IN_prec);
    VF_ASSUME(IN_cnt <= 3 && IN_rtype <= 2);
    memset(&c12_poly, 0, sizeof c12_poly);
    c12_poly.tag = IN_tag;
    c12_poly.point_array.count = IN_cnt; c12_poly.point_array.capacity = 3;
    c12_poly.point_array.items = (Vec2 *)malloc(sizeof(Vec2) * 3);
    VF_ASSUME(c12_poly.point_array.items != NULL);
    for (int k = 0; k < 3; k++) { c12_poly.point_array.items[k].x = IN_vx[k]; c12_poly.point_array.items[k].y = IN_vy[k]; }
    c12_poly.repetition.type = (RepetitionType)IN_rtype; c12_poly.repetition.columns = IN_cols; c12_poly.repetition.rows = IN_rows;
    c12_poly.properties = &c12_prop;
    G_propcopy = &c12_propcopy;
    memset(&c12_result, 0, sizeof c12_result);
    Polygon *this_ = &c12_poly;
    Polygon__fracture(this_, IN_maxp, IN_prec, &c12_result);
    if (IN_maxp <= 4) {
        VF_ASSERT(c12_result.count == 0 && c12_result.items == NULL, "a limit below five leaves the polygon alone: nothing is produced");
    } else {
        VF_ASSERT(c12_result.count == 1, "a polygon that fits the limit comes back as one piece");
        if (c12_result.count == 1) {
            Polygon *piece = c12_result.items[0];
            VF_ASSERT(piece != this_ && piece->point_array.count == IN_cnt, "the piece is a copy with the same number of vertices");
            for (int k = 0; k < 3; k++) if ((uint64_t)k < IN_cnt)
                VF_ASSERT(memcmp(&piece->point_array.items[k], &c12_poly.point_array.items[k], sizeof(Vec2)) == 0, "same vertices");
            VF_ASSERT(piece->tag == IN_tag, "the piece carries the original's tag");
            VF_ASSERT(piece->repetition.type == (RepetitionType)IN_rtype && piece->repetition.columns == IN_cols && piece->repetition.rows == IN_rows, "the piece carries a copy of the original's repetition");
            VF_ASSERT(piece->properties == G_propcopy, "the piece carries a copy of the original's properties");
        }
    }
    VF_ASSERT(c12_poly.point_array.count == IN_cnt && c12_poly.tag == IN_tag && c12_poly.properties == &c12_prop, "the original is untouched");
    VF_REACHED();
}
#endif
