/* harnesses for C14: bounded exhaustive comparison of Polygon::contain / signed_area / area against an
 * exact integer oracle written from the property statement ("on an edge or vertex, or winding number
 * non-zero"; shoelace sum).  Every vertex list of up to C14_N vertices with coordinates in -2..2
 * (repeated vertices, collinear, self-intersecting, fewer than three vertices included) and every query
 * point on the half-integer grid -2.5..2.5; all values exactly representable, all products exact.
 * Plain assertions on the real (lowered) functions; bounded stand-in. */
#ifndef C14_N
#define C14_N 4
#endif
#ifndef C14_R
#define C14_R 2     /* coordinate range -C14_R..C14_R */
#endif
int8_t IN_vx[C14_N], IN_vy[C14_N], IN_qx2, IN_qy2;
uint8_t IN_cnt;
uint64_t IN_cols, IN_rows;
static Polygon c14_poly;

static void c14_state(void) {
    VF_IN(u8, IN_cnt); VF_IN_ARR(IN_vx); VF_IN_ARR(IN_vy);
    VF_ASSUME(IN_cnt <= C14_N);
    memset(&c14_poly, 0, sizeof c14_poly);
    c14_poly.point_array.count = IN_cnt;
    c14_poly.point_array.capacity = C14_N;
    c14_poly.point_array.items = (Vec2 *)malloc(sizeof(Vec2) * C14_N);
    VF_ASSUME(c14_poly.point_array.items != NULL);
    for (int k = 0; k < C14_N; k++) {
        VF_ASSUME(IN_vx[k] >= -C14_R && IN_vx[k] <= C14_R && IN_vy[k] >= -C14_R && IN_vy[k] <= C14_R);
        c14_poly.point_array.items[k].x = (double)IN_vx[k];
        c14_poly.point_array.items[k].y = (double)IN_vy[k];
    }
}
static int64_t c14_isleft(int64_t ax, int64_t ay, int64_t bx, int64_t by, int64_t qx, int64_t qy) {
    return (bx - ax) * (qy - ay) - (qx - ax) * (by - ay);
}
#ifdef VF_ENTRY_h_contain
void h_contain(void) {
    c14_state();
    VF_IN(u8, IN_qx2); VF_IN(u8, IN_qy2);   /* int8_t inputs: the raw byte is reinterpreted */
    VF_ASSUME(IN_qx2 >= -(2 * C14_R + 1) && IN_qx2 <= 2 * C14_R + 1 && IN_qy2 >= -(2 * C14_R + 1) && IN_qy2 <= 2 * C14_R + 1);
    Vec2 point; point.x = (double)IN_qx2 / 2.0; point.y = (double)IN_qy2 / 2.0;
    /* oracle, in units of 1/2 */
    int64_t qx = IN_qx2, qy = IN_qy2;
    bool boundary = false; int64_t wn = 0;
    for (int k = 0; k < C14_N; k++) {
        if (k < IN_cnt) {
            int kn = (k + 1 < IN_cnt) ? k + 1 : 0;
            int64_t ax = 2 * IN_vx[k], ay = 2 * IN_vy[k], bx = 2 * IN_vx[kn], by = 2 * IN_vy[kn];
            int64_t il = c14_isleft(ax, ay, bx, by, qx, qy);
            int64_t lox = ax < bx ? ax : bx, hix = ax < bx ? bx : ax, loy = ay < by ? ay : by, hiy = ay < by ? by : ay;
            if (il == 0 && qx >= lox && qx <= hix && qy >= loy && qy <= hiy) boundary = true;
            if (ay <= qy) { if (by > qy && il > 0) wn++; }
            else { if (by <= qy && il < 0) wn--; }
        }
    }
    bool expected = boundary || wn != 0;
    Polygon *this_ = &c14_poly;
    bool got = Polygon__contain(this_, point);
    VF_ASSERT(got == expected, "contain() differs from: on the boundary or winding number non-zero");
    /* lemma used by the group-query proofs: a contained point lies in the bounding box of the vertices */
    if (got) {
        int64_t lo_x = 100, hi_x = -100, lo_y = 100, hi_y = -100;
        for (int k = 0; k < C14_N; k++) if (k < IN_cnt) {
            if (2 * IN_vx[k] < lo_x) lo_x = 2 * IN_vx[k];
            if (2 * IN_vx[k] > hi_x) hi_x = 2 * IN_vx[k];
            if (2 * IN_vy[k] < lo_y) lo_y = 2 * IN_vy[k];
            if (2 * IN_vy[k] > hi_y) hi_y = 2 * IN_vy[k];
        }
        VF_ASSERT(qx >= lo_x && qx <= hi_x && qy >= lo_y && qy <= hi_y, "contained point lies in the bounding box");
    }
    free(c14_poly.point_array.items);
    VF_REACHED();
}
#endif
#if defined(VF_ENTRY_h_signed_area) || defined(VF_ENTRY_h_area)
static int64_t c14_shoelace2(void) {
    int64_t s2 = 0;
    for (int k = 0; k < C14_N; k++) {
        if (k < IN_cnt) {
            int kn = (k + 1 < IN_cnt) ? k + 1 : 0;
            s2 += (int64_t)IN_vx[k] * IN_vy[kn] - (int64_t)IN_vx[kn] * IN_vy[k];
        }
    }
    return IN_cnt < 3 ? 0 : s2;
}
#endif
#ifdef VF_ENTRY_h_signed_area
void h_signed_area(void) {
    c14_state();
    Polygon *this_ = &c14_poly;
    double got = Polygon__signed_area(this_);
    VF_ASSERT(got == 0.5 * (double)c14_shoelace2(), "signed_area() differs from half the shoelace sum");
    free(c14_poly.point_array.items);
    VF_REACHED();
}
#endif
#ifdef VF_ENTRY_h_area
void h_area(void) {
    c14_state();
    VF_IN(u64, IN_cols); VF_IN(u64, IN_rows);
    VF_ASSUME(IN_cols <= 3 && IN_rows <= 3);
    /* no repetition (cols == 0 stands for "none") or a rectangular lattice of cols x rows copies */
    if (IN_cols > 0) { c14_poly.repetition.type = RepetitionType_Rectangular; c14_poly.repetition.columns = IN_cols; c14_poly.repetition.rows = IN_rows; }
    Polygon *this_ = &c14_poly;
    double got = Polygon__area(this_);
    int64_t s2 = c14_shoelace2();
    if (s2 < 0) s2 = -s2;
    double copies = IN_cols > 0 ? (double)(IN_cols * IN_rows) : 1.0;
    VF_ASSERT(got == 0.5 * (double)s2 * copies, "area() differs from |shoelace|/2 times the number of copies");
    free(c14_poly.point_array.items);
    VF_REACHED();
}
#endif

#ifdef VF_ENTRY_h_perimeter
void h_perimeter(void) {
    c14_state();
    Polygon *this_ = &c14_poly;
    double got = Polygon__perimeter(this_);
    /* closed edge-length sum of the vertex list, edges in order, the closing edge last; zero below 3 vertices */
    double expected = 0;
    if (IN_cnt >= 3) {
        for (int k = 0; k + 1 < C14_N; k++) if (k + 1 < IN_cnt) {
            int64_t dx = (int64_t)IN_vx[k + 1] - IN_vx[k], dy = (int64_t)IN_vy[k + 1] - IN_vy[k];
            expected += sqrt((double)(dx * dx + dy * dy));
        }
        int64_t dx = (int64_t)IN_vx[0] - IN_vx[IN_cnt - 1], dy = (int64_t)IN_vy[0] - IN_vy[IN_cnt - 1];
        expected += sqrt((double)(dx * dx + dy * dy));
    }
    VF_ASSERT(got == expected, "perimeter() differs from the closed edge-length sum");
    free(c14_poly.point_array.items);
    VF_REACHED();
}
#endif
