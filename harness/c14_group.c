/* harnesses for the group queries of C14: up to 2 points x up to 2 polygons, the single-polygon
 * answer uninterpreted; plain assertions.  Bounded stand-in (group sizes). */
uint8_t IN_np, IN_npoly;
static Polygon c14g_poly[2];
static Polygon *c14g_pp[2];
static Vec2 c14g_pts[2];
static Array_Vec2 c14g_points;
static void c14g_state(void) {
    VF_IN(u8, IN_np); VF_IN(u8, IN_npoly);
    VF_ASSUME(IN_np <= 2 && IN_npoly <= 2);
    VF_IN_ARR(IN_px); VF_IN_ARR(IN_py);
    for (int k = 0; k < 2; k++) {
        VF_ASSUME(IN_px[k] == IN_px[k] && IN_py[k] == IN_py[k]);
        c14g_pts[k].x = IN_px[k]; c14g_pts[k].y = IN_py[k];
        memset(&c14g_poly[k], 0, sizeof(Polygon));
        c14g_pp[k] = &c14g_poly[k];
    }
    c14g_points.count = IN_np; c14g_points.capacity = 2; c14g_points.items = c14g_pts;
}
#define C14G_C(j, i) vf_contain(&c14g_poly[j], IN_px[i], IN_py[i])
#define C14G_ANYPOLY(i) ((IN_npoly > 0 && C14G_C(0, i)) || (IN_npoly > 1 && C14G_C(1, i)))
#ifdef VF_ENTRY_h_contain_all
void h_contain_all(void) {
    c14g_state();
    bool got = Polygon__contain_all(&c14g_poly[0], &c14g_points);
    bool expected = (IN_np < 1 || C14G_C(0, 0)) && (IN_np < 2 || C14G_C(0, 1));
    VF_ASSERT(got == expected, "contain_all is the conjunction of the single-point answers");
    VF_REACHED();
}
#endif
#ifdef VF_ENTRY_h_contain_any
void h_contain_any(void) {
    c14g_state();
    bool got = Polygon__contain_any(&c14g_poly[0], &c14g_points);
    bool expected = (IN_np >= 1 && C14G_C(0, 0)) || (IN_np >= 2 && C14G_C(0, 1));
    VF_ASSERT(got == expected, "contain_any is the disjunction of the single-point answers");
    VF_REACHED();
}
#endif
#if defined(VF_ENTRY_h_inside) || defined(VF_ENTRY_h_all_inside) || defined(VF_ENTRY_h_any_inside)
static Array_Polygon_p c14g_polys;
static void c14g_polys_state(void) { c14g_polys.count = IN_npoly; c14g_polys.capacity = 2; c14g_polys.items = c14g_pp; }
#endif
#ifdef VF_ENTRY_h_inside
void h_inside(void) {
    c14g_state(); c14g_polys_state();
    bool result[2] = {false, false};
    inside(&c14g_points, &c14g_polys, result);
    if (IN_np >= 1) VF_ASSERT(result[0] == C14G_ANYPOLY(0), "inside[0] is the disjunction over the polygons");
    if (IN_np >= 2) VF_ASSERT(result[1] == C14G_ANYPOLY(1), "inside[1] is the disjunction over the polygons");
    VF_REACHED();
}
#endif
#ifdef VF_ENTRY_h_all_inside
void h_all_inside(void) {
    c14g_state(); c14g_polys_state();
    bool got = all_inside(&c14g_points, &c14g_polys);
    bool expected = (IN_np < 1 || C14G_ANYPOLY(0)) && (IN_np < 2 || C14G_ANYPOLY(1));
    VF_ASSERT(got == expected, "all_inside is the conjunction over the points of the disjunction over the polygons");
    VF_REACHED();
}
#endif
#ifdef VF_ENTRY_h_any_inside
void h_any_inside(void) {
    c14g_state(); c14g_polys_state();
    bool got = any_inside(&c14g_points, &c14g_polys);
    bool expected = (IN_np >= 1 && C14G_ANYPOLY(0)) || (IN_np >= 2 && C14G_ANYPOLY(1));
    VF_ASSERT(got == expected, "any_inside is existence over points and polygons");
    VF_REACHED();
}
#endif
