/* harnesses for C16 (library edits): ONE edit on an ARBITRARY small library -- 2 cells (named by one of
 * three one-letter names), each with up to 2 references that are by-pointer (to either cell), by-name
 * (any of the three names, so possibly an absent cell) or to a raw cell.  The postcondition is taken
 * from the property: every reference that designated the old cell designates the new one, no reference
 * designates the removed object, everything else is untouched.  Bounded stand-in; plain assertions. */
#define NC 2
#ifndef NR
#define NR 2
#endif
uint8_t IN_cname[NC], IN_nref[NC], IN_rtype[NC][NR], IN_rtgt[NC][NR], IN_newname, IN_which, IN_rawname;
static Library c16_lib;
static Cell c16_cell[NC];
static Cell *c16_cellp[NC + 1];
static Reference c16_ref[NC][NR];
static Reference *c16_refp[NC][NR];
static RawCell c16_raw;          /* a raw cell that by-rawcell references point to */
static RawCell *c16_rawp[2];
static char c16_rawname[2];
static char c16_nn[2];

static char *c16_str(uint8_t c) { char *s = (char *)malloc(2); VF_ASSUME(s != NULL); s[0] = (char)c; s[1] = 0; return s; }
static bool c16_letter(uint8_t c) { return c == 'a' || c == 'b' || c == 'c'; }

static void c16_state(void) {
    memset(&c16_lib, 0, sizeof c16_lib);
    VF_IN(u8, IN_rawname); VF_ASSUME(c16_letter(IN_rawname));
    VF_IN_ARR(IN_cname); VF_IN_ARR(IN_nref); VF_IN_ARR2(IN_rtype); VF_IN_ARR2(IN_rtgt);
    memset(&c16_raw, 0, sizeof c16_raw);
    c16_rawname[0] = (char)IN_rawname; c16_rawname[1] = 0;
    c16_raw.name = c16_rawname;
    for (int i = 0; i < NC; i++) {
        VF_ASSUME(c16_letter(IN_cname[i]) && IN_nref[i] <= NR);
        memset(&c16_cell[i], 0, sizeof(Cell));
        c16_cell[i].name = c16_str(IN_cname[i]);
        c16_cellp[i] = &c16_cell[i];
        for (int j = 0; j < NR; j++) {
            VF_ASSUME(IN_rtype[i][j] <= 2);
#ifdef C16_NO_RAW_REFS
            VF_ASSUME(IN_rtype[i][j] != 1);
#endif
#ifdef C16_T0
            IN_rtype[i][j] = (i == 0) ? C16_T0 : C16_T1;   /* this group fixes the reference kinds */
#endif
            memset(&c16_ref[i][j], 0, sizeof(Reference));
            c16_ref[i][j].type = (ReferenceType)IN_rtype[i][j];
            if (IN_rtype[i][j] == 0) { VF_ASSUME(IN_rtgt[i][j] < NC); c16_ref[i][j].cell = &c16_cell[IN_rtgt[i][j]]; }
            else if (IN_rtype[i][j] == 1) { c16_ref[i][j].rawcell = &c16_raw; }
            else { VF_ASSUME(c16_letter(IN_rtgt[i][j])); c16_ref[i][j].name = c16_str(IN_rtgt[i][j]); }
            c16_refp[i][j] = &c16_ref[i][j];
        }
        c16_cell[i].reference_array.count = IN_nref[i];
        c16_cell[i].reference_array.capacity = NR;
        c16_cell[i].reference_array.items = c16_refp[i];
    }
    VF_ASSUME(IN_cname[0] != IN_cname[1]);      /* cell names are unique in a library */
    c16_lib.cell_array.count = NC; c16_lib.cell_array.capacity = NC + 1; c16_lib.cell_array.items = c16_cellp;
    c16_lib.rawcell_array.count = 0; c16_lib.rawcell_array.capacity = 2; c16_lib.rawcell_array.items = c16_rawp;
}
/* the name a by-name reference had on entry */
#define OLDNAME(i, j) (IN_rtgt[i][j])

#ifdef VF_ENTRY_h_rename_cell
void h_rename_cell(void) {
    c16_state();
    VF_IN(u8, IN_which); VF_IN(u8, IN_newname);
    VF_ASSUME(IN_which < NC && c16_letter(IN_newname));
    c16_nn[0] = (char)IN_newname; c16_nn[1] = 0;
    uint8_t oldn = IN_cname[IN_which];
    Library *this_ = &c16_lib;
    Library__rename_cell__Cell_p_char_p(this_, &c16_cell[IN_which], c16_nn);
    VF_ASSERT(c16_cell[IN_which].name[0] == (char)IN_newname && c16_cell[IN_which].name[1] == 0, "the cell carries the new name");
    VF_ASSERT(c16_cell[1 - IN_which].name[0] == (char)IN_cname[1 - IN_which], "the other cell keeps its name");
    for (int i = 0; i < NC; i++) for (int j = 0; j < NR; j++) if (j < IN_nref[i]) {
        Reference *r = &c16_ref[i][j];
        VF_ASSERT(r->type == (ReferenceType)IN_rtype[i][j], "reference kinds are untouched by a rename");
        if (IN_rtype[i][j] == 0) VF_ASSERT(r->cell == &c16_cell[IN_rtgt[i][j]], "by-pointer references are untouched");
        else if (IN_rtype[i][j] == 1) VF_ASSERT(r->rawcell == &c16_raw, "raw-cell references are untouched");
        else if (OLDNAME(i, j) == oldn) VF_ASSERT(r->name[0] == (char)IN_newname && r->name[1] == 0, "by-name references to the renamed cell follow it");
        else VF_ASSERT(r->name[0] == (char)OLDNAME(i, j) && r->name[1] == 0, "other by-name references are untouched");
    }
    VF_REACHED();
}
#endif
#ifdef VF_ENTRY_h_replace_cell_raw
static RawCell c16_newraw;
void h_replace_cell_raw(void) {
    c16_state();
    VF_IN(u8, IN_which); VF_IN(u8, IN_newname);
    VF_ASSUME(IN_which < NC && c16_letter(IN_newname));
    c16_nn[0] = (char)IN_newname; c16_nn[1] = 0;
    memset(&c16_newraw, 0, sizeof c16_newraw);
    c16_newraw.name = c16_nn;
    uint8_t oldn = IN_cname[IN_which];
    Cell *old_cell = &c16_cell[IN_which];
    Library *this_ = &c16_lib;
    Library__replace_cell__Cell_p_RawCell_p(this_, old_cell, &c16_newraw);
    VF_ASSERT(c16_lib.cell_array.count == NC - 1 && c16_lib.cell_array.items[0] == &c16_cell[1 - IN_which], "the old cell left the library, the other stays");
    VF_ASSERT(c16_lib.rawcell_array.count == 1 && c16_lib.rawcell_array.items[0] == &c16_newraw, "the raw cell joined the library");
    /* references of the remaining cell */
    int i = 1 - IN_which;
    for (int j = 0; j < NR; j++) if (j < IN_nref[i]) {
        Reference *r = &c16_ref[i][j];
        if (IN_rtype[i][j] == 0) {
            if (IN_rtgt[i][j] == IN_which) VF_ASSERT(r->type == ReferenceType_RawCell && r->rawcell == &c16_newraw, "by-pointer references to the old cell designate the replacement");
            else VF_ASSERT(r->type == ReferenceType_Cell && r->cell == &c16_cell[IN_rtgt[i][j]], "other by-pointer references are untouched");
        } else if (IN_rtype[i][j] == 1) {
            if (IN_rawname == oldn) VF_ASSERT(r->type == ReferenceType_RawCell && r->rawcell == &c16_newraw, "raw references carrying the old name designate the replacement");
            else VF_ASSERT(r->type == ReferenceType_RawCell && r->rawcell == &c16_raw, "other raw references are untouched");
        } else {
            VF_ASSERT(r->type == ReferenceType_Name, "by-name references stay by-name");
            if (OLDNAME(i, j) == oldn) VF_ASSERT(r->name[0] == (char)IN_newname && r->name[1] == 0, "by-name references to the old cell carry the replacement's name");
            else VF_ASSERT(r->name[0] == (char)OLDNAME(i, j) && r->name[1] == 0, "other by-name references are untouched");
        }
    }
    VF_REACHED();
}
#endif

#ifdef VF_ENTRY_h_replace_cell_cell
static Cell c16_newcell;
void h_replace_cell_cell(void) {
    c16_state();
    VF_IN(u8, IN_which); VF_IN(u8, IN_newname);
    VF_ASSUME(IN_which < NC && c16_letter(IN_newname));
    memset(&c16_newcell, 0, sizeof c16_newcell);
    c16_newcell.name = c16_str(IN_newname);
    uint8_t oldn = IN_cname[IN_which];
    Cell *old_cell = &c16_cell[IN_which];
    Library *this_ = &c16_lib;
    Library__replace_cell__Cell_p_Cell_p(this_, old_cell, &c16_newcell);
    VF_ASSERT(c16_lib.cell_array.count == NC && c16_lib.cell_array.items[IN_which] == &c16_newcell && c16_lib.cell_array.items[1 - IN_which] == &c16_cell[1 - IN_which], "the new cell takes the old cell's place in the library");
    int i = 1 - IN_which;
    for (int j = 0; j < NR; j++) if (j < IN_nref[i]) {
        Reference *r = &c16_ref[i][j];
        if (IN_rtype[i][j] == 0) {
            VF_ASSERT(r->type == ReferenceType_Cell, "by-pointer references stay by-pointer");
            if (IN_rtgt[i][j] == IN_which) VF_ASSERT(r->cell == &c16_newcell, "by-pointer references to the old cell designate the replacement");
            else VF_ASSERT(r->cell == &c16_cell[IN_rtgt[i][j]], "other by-pointer references are untouched");
        } else if (IN_rtype[i][j] == 2) {
            VF_ASSERT(r->type == ReferenceType_Name, "by-name references stay by-name");
            if (OLDNAME(i, j) == oldn) VF_ASSERT(r->name[0] == (char)IN_newname && r->name[1] == 0, "by-name references to the old cell carry the replacement's name");
            else VF_ASSERT(r->name[0] == (char)OLDNAME(i, j) && r->name[1] == 0, "other by-name references are untouched");
        }
    }
    VF_REACHED();
}
#endif

#ifdef VF_ENTRY_h_replace_raw_by_cell
/* Library::replace_cell(RawCell*, Cell*): the raw cell c16_oldraw (in the library's raw-cell array, named by
 * IN_rawname, different from both cell names) is replaced by a new Cell named IN_newname */
static RawCell c16_oldraw;
static Cell c16_newcell2;
void h_replace_raw_by_cell(void) {
    c16_state();
    VF_IN(u8, IN_newname);
    VF_ASSUME(c16_letter(IN_newname));
    VF_ASSUME(IN_rawname != IN_cname[0] && IN_rawname != IN_cname[1]);   /* names are unique in a library */
    memset(&c16_oldraw, 0, sizeof c16_oldraw);
    c16_oldraw.name = c16_rawname;
    c16_lib.rawcell_array.count = 1; c16_rawp[0] = &c16_oldraw;
    memset(&c16_newcell2, 0, sizeof c16_newcell2);
    c16_newcell2.name = c16_str(IN_newname);
    Library *this_ = &c16_lib;
    Library__replace_cell__RawCell_p_Cell_p(this_, &c16_oldraw, &c16_newcell2);
    VF_ASSERT(c16_lib.rawcell_array.count == 0, "the raw cell left the library");
    VF_ASSERT(c16_lib.cell_array.count == NC + 1 && c16_lib.cell_array.items[0] == &c16_cell[0] && c16_lib.cell_array.items[1] == &c16_cell[1] && c16_lib.cell_array.items[NC] == &c16_newcell2, "the new cell joined the library, the others stay");
    for (int i = 0; i < NC; i++) for (int j = 0; j < NR; j++) if (j < IN_nref[i]) {
        Reference *r = &c16_ref[i][j];
        if (IN_rtype[i][j] == 0) {
            VF_ASSERT(r->type == ReferenceType_Cell && r->cell == &c16_cell[IN_rtgt[i][j]], "by-pointer references to the other cells are untouched");
        } else if (IN_rtype[i][j] == 2) {
            VF_ASSERT(r->type == ReferenceType_Name, "by-name references stay by-name");
            if (OLDNAME(i, j) == IN_rawname) VF_ASSERT(r->name[0] == (char)IN_newname && r->name[1] == 0, "by-name references to the raw cell carry the replacement's name");
            else VF_ASSERT(r->name[0] == (char)OLDNAME(i, j) && r->name[1] == 0, "other by-name references are untouched");
        }
    }
    VF_REACHED();
}
#endif
