/* harnesses for C18: the file is the ghost tape; every byte and the length are arbitrary */
uint64_t IN_bc;
#ifdef VF_ENTRY_h_read_record
#ifndef VF_BUFCAP
#define VF_BUFCAP 96
#endif
static uint8_t c18_buf[VF_BUFCAP];
void h_read_record(void) {
    VF_IN(u64, IN_len); VF_IN(u64, IN_pos0); VF_IN_ARR(IN_tape); VF_IN(u64, IN_bc);
#ifdef VF_HAS_error_logger
    error_logger = NULL;
#endif
    vf_tape_open();
    FILE *in = G_file;
    uint64_t bc = IN_bc;
    VF_ASSUME(bc <= VF_BUFCAP);
    uint64_t *buffer_count = &bc;
    uint8_t *buffer = c18_buf;
    VF_CALL_R(ErrorCode, r, gdsii_read_record, in, buffer, buffer_count);
    (void)r;
    vf_tape_close();
}
#endif

#ifdef VF_ENTRY_h_gds_units
double OUT_unit, OUT_precision;
void h_gds_units(void) {
    VF_IN(u64, IN_len); VF_IN_ARR(IN_tape); VF_IN(u8, IN_openfail);
#ifdef VF_HAS_error_logger
    error_logger = NULL;
#endif
    char *filename = (char *)vf_tape_file();
    double *unit = &OUT_unit, *precision = &OUT_precision;
    VF_CALL_R(ErrorCode, r, gds_units, filename, unit, precision);
    (void)r;
}
#endif

#ifdef VF_ENTRY_h_oas_precision
double OUT_precision;
void h_oas_precision(void) {
    VF_IN(u64, IN_len); VF_IN_ARR(IN_tape); VF_IN(u8, IN_openfail);
#ifdef VF_HAS_error_logger
    error_logger = NULL;
#endif
    char *filename = (char *)vf_tape_file();
    double *precision = &OUT_precision;
    VF_CALL_R(ErrorCode, r, oas_precision, filename, precision);
    (void)r;
}
#endif
#ifdef VF_ENTRY_h_oas_validate
uint32_t OUT_sig; ErrorCode OUT_err; bool IN_wantsig, IN_wanterr;
void h_oas_validate(void) {
    VF_IN(u64, IN_len); VF_IN_ARR(IN_tape); VF_IN(u8, IN_openfail); VF_IN(bool, IN_wantsig); VF_IN(bool, IN_wanterr);
#ifdef VF_HAS_error_logger
    error_logger = NULL;
#endif
    char *filename = (char *)vf_tape_file();
    uint32_t *signature = IN_wantsig ? &OUT_sig : NULL;
    ErrorCode *error_code = IN_wanterr ? &OUT_err : NULL;
    VF_CALL_R(bool, r, oas_validate, filename, signature, error_code);
    (void)r;
}
#endif
#ifdef VF_ENTRY_h_gds_timestamp
ErrorCode OUT_err; bool IN_wanterr;
void h_gds_timestamp(void) {
    VF_IN(u64, IN_len); VF_IN_ARR(IN_tape); VF_IN(u8, IN_openfail); VF_IN(bool, IN_wanterr);
#ifdef VF_HAS_error_logger
    error_logger = NULL;
#endif
    char *filename = (char *)vf_tape_file();
    struct tm *new_timestamp = NULL;
    ErrorCode *error_code = IN_wanterr ? &OUT_err : NULL;
    VF_CALL_R(struct tm, r, gds_timestamp, filename, new_timestamp, error_code);
    (void)r;
}
#endif
#ifdef VF_ENTRY_h_read_rawcells
ErrorCode OUT_err;
void h_read_rawcells(void) {
    VF_IN(u64, IN_len); VF_IN_ARR(IN_tape); VF_IN(u8, IN_openfail);
#ifdef VF_HAS_error_logger
    error_logger = NULL;
#endif
    char *filename = (char *)vf_tape_file();
    OUT_err = ErrorCode_NoError;
    ErrorCode *error_code = &OUT_err;
    VF_CALL_R(Map_RawCell_p, r, read_rawcells, filename, error_code);
    (void)r;
}
#endif

#ifdef VF_ENTRY_h_gds_info
static LibraryInfo c18_info;
void h_gds_info(void) {
    VF_IN(u64, IN_len); VF_IN_ARR(IN_tape); VF_IN(u8, IN_openfail);
#ifdef VF_HAS_error_logger
    error_logger = NULL;
#endif
    char *filename = (char *)vf_tape_file();
    memset(&c18_info, 0, sizeof c18_info);
    LibraryInfo *info = &c18_info;
    VF_CALL_R(ErrorCode, r, gds_info, filename, info);
    (void)r;
}
#endif
