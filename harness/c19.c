/* harnesses for C19 (number encodings).  One source, compiled by goto-cc on the lowered C and by
 * g++ on the real gdstk sources (see include/vf.h). */
int IN_err0;
bool IN_log;
uint64_t IN_value;
static FILE *G_log;

static void c19_env(void) {
    VF_IN(bool, IN_log);
#ifdef VF_HAS_error_logger
#ifdef VF_CBMC
    G_log = (FILE *)malloc(1);
    __CPROVER_assume(G_log != NULL);
    error_logger = IN_log ? G_log : NULL;
#else
    error_logger = NULL;
#endif
#endif
}

static void c19_in_stream(OasisStream *s) {
    VF_IN(u64, IN_len);
    VF_IN(u64, IN_pos0);
    VF_IN_ARR(IN_tape);
    VF_IN(int, IN_err0);
    VF_ASSUME(IN_err0 >= 0 && IN_err0 <= 16);
    vf_tape_open();
    memset(s, 0, sizeof *s);
    s->file = G_file;
    s->error_code = (ErrorCode)IN_err0;
}

static void c19_out_stream(OasisStream *s) {
    vf_wtape_open();
    memset(s, 0, sizeof *s);
    s->file = W_file;
}

#ifdef VF_ENTRY_h_uint_read
void h_uint_read(void) {
    OasisStream s;
    OasisStream *in = &s;
    c19_env();
    c19_in_stream(in);
    VF_CALL_R(uint64_t, r, oasis_read_unsigned_integer, in);
    (void)r;
}
#endif

#ifdef VF_ENTRY_h_uint_write
void h_uint_write(void) {
    OasisStream s;
    OasisStream *out = &s;
    c19_env();
    c19_out_stream(out);
    uint64_t value;
    VF_IN(u64, IN_value);
    value = IN_value;
    VF_CALL_V(oasis_write_unsigned_integer, out, value);
}
#endif
