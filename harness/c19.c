/* harnesses for C19 (number encodings).  One source, compiled by goto-cc on the lowered C and by
 * g++ on the real gdstk sources (see include/vf.h). */
int IN_err0;
bool IN_log;
uint64_t IN_value;
static FILE *G_log;

static void c19_env(void) {
    VF_IN(bool, IN_log);
#ifdef VF_HAS_error_logger
#ifdef VF_CBMC
    G_log = (FILE *)malloc(1);
    __CPROVER_assume(G_log != NULL);
    error_logger = IN_log ? G_log : NULL;
#else
    error_logger = NULL;
#endif
#endif
}

static void c19_in_stream(OasisStream *s) {
    VF_IN(u64, IN_len);
    VF_IN(u64, IN_pos0);
    VF_IN_ARR(IN_tape);
    VF_IN(int, IN_err0);
    VF_ASSUME(IN_err0 >= 0 && IN_err0 <= 16);
#ifdef VF_POS0_ZERO
    VF_ASSUME(IN_pos0 == 0);   /* this group fixes the start position (see the group's bound text) */
#endif
    vf_tape_open();
    memset(s, 0, sizeof *s);
    s->file = G_file;
    s->error_code = (ErrorCode)IN_err0;
}

static void c19_out_stream(OasisStream *s) {
    vf_wtape_open();
    memset(s, 0, sizeof *s);
    s->file = W_file;
}

#ifdef VF_ENTRY_h_uint_read
void h_uint_read(void) {
    OasisStream s;
    OasisStream *in = &s;
    c19_env();
    c19_in_stream(in);
    VF_CALL_R(uint64_t, r, oasis_read_unsigned_integer, in);
    (void)r;
}
#endif

#ifdef VF_ENTRY_h_uint_write
void h_uint_write(void) {
    OasisStream s;
    OasisStream *out = &s;
    c19_env();
    c19_out_stream(out);
    uint64_t value;
    VF_IN(u64, IN_value);
    value = IN_value;
    VF_CALL_V(oasis_write_unsigned_integer, out, value);
}
#endif

/* ------------------------------------------------------------------ signed integers and deltas */
uint8_t IN_skip, IN_bits;
int64_t IN_x, IN_y;
int64_t OUT_x, OUT_y;

#ifdef VF_ENTRY_h_int_read
void h_int_read(void) {
    OasisStream s; OasisStream *in = &s;
    c19_env(); c19_in_stream(in);
    uint8_t skip_bits; VF_IN(u8, IN_skip); skip_bits = IN_skip;
    int64_t res; VF_IN(i64, IN_x); res = IN_x;
    int64_t *result = &res;
    VF_CALL_R(uint8_t, r, oasis_read_int_internal, in, skip_bits, result);
    (void)r;
}
#endif
#ifdef VF_ENTRY_h_integer_read
void h_integer_read(void) {
    OasisStream s; OasisStream *in = &s;
    c19_env(); c19_in_stream(in);
    VF_CALL_R(int64_t, r, oasis_read_integer, in);
    (void)r;
}
#endif
#define DELTA_READ_HARNESS(NAME, FN)                                  \
    void NAME(void) {                                                 \
        OasisStream s; OasisStream *in = &s;                          \
        c19_env(); c19_in_stream(in);                                 \
        VF_IN(i64, IN_x); VF_IN(i64, IN_y);                           \
        OUT_x = IN_x; OUT_y = IN_y;                                   \
        int64_t *x = &OUT_x; int64_t *y = &OUT_y;                     \
        VF_CALL_V(FN, in, x, y);                                      \
    }
#ifdef VF_ENTRY_h_2delta_read
DELTA_READ_HARNESS(h_2delta_read, oasis_read_2delta)
#endif
#ifdef VF_ENTRY_h_3delta_read
DELTA_READ_HARNESS(h_3delta_read, oasis_read_3delta)
#endif
#ifdef VF_ENTRY_h_gdelta_read
DELTA_READ_HARNESS(h_gdelta_read, oasis_read_gdelta)
#endif

#ifdef VF_ENTRY_h_int_write
void h_int_write(void) {
    OasisStream s; OasisStream *out = &s;
    c19_env(); c19_out_stream(out);
    int64_t value; uint8_t num_bits, bits;
    VF_IN(i64, IN_x); VF_IN(u8, IN_skip); VF_IN(u8, IN_bits);
    value = IN_x; num_bits = IN_skip; bits = IN_bits;
    VF_CALL_V(oasis_write_int_internal, out, value, num_bits, bits);
}
#endif
#ifdef VF_ENTRY_h_integer_write
void h_integer_write(void) {
    OasisStream s; OasisStream *out = &s;
    c19_env(); c19_out_stream(out);
    int64_t value; VF_IN(i64, IN_x); value = IN_x;
    VF_CALL_V(oasis_write_integer, out, value);
}
#endif
#define DELTA_WRITE_HARNESS(NAME, FN)                                 \
    void NAME(void) {                                                 \
        OasisStream s; OasisStream *out = &s;                         \
        c19_env(); c19_out_stream(out);                               \
        int64_t x, y; VF_IN(i64, IN_x); VF_IN(i64, IN_y);             \
        x = IN_x; y = IN_y;                                           \
        VF_CALL_V(FN, out, x, y);                                     \
    }
#ifdef VF_ENTRY_h_2delta_write
DELTA_WRITE_HARNESS(h_2delta_write, oasis_write_2delta)
#endif
#ifdef VF_ENTRY_h_3delta_write
DELTA_WRITE_HARNESS(h_3delta_write, oasis_write_3delta)
#endif
#ifdef VF_ENTRY_h_gdelta_write
DELTA_WRITE_HARNESS(h_gdelta_write, oasis_write_gdelta)
#endif

/* ------------------------------------------------------------------ reals */
uint8_t IN_type;
double IN_real;
#ifdef VF_ENTRY_h_real_read
void h_real_read(void) {
    OasisStream s; OasisStream *in = &s;
    c19_env(); c19_in_stream(in);
    OasisDataType type; VF_IN(u8, IN_type);
    VF_ASSUME(IN_type >= VF_TYPE_LO && IN_type <= VF_TYPE_HI);   /* the groups partition 0..255 */
    type = (OasisDataType)IN_type;
    VF_CALL_R(double, r, oasis_read_real_by_type, in, type);
    (void)r;
}
#endif
#ifdef VF_ENTRY_h_real_write
void h_real_write(void) {
    OasisStream s; OasisStream *out = &s;
    c19_env(); c19_out_stream(out);
    double value; VF_IN(double, IN_real); value = IN_real;
    VF_CALL_V(oasis_write_real, out, value);
}
#endif

/* ------------------------------------------------------------------ stream primitives */
uint64_t IN_size, IN_count;
uint8_t IN_buf[32];
int IN_c;
#ifdef VF_ENTRY_h_stream_read
void h_stream_read(void) {
    OasisStream s; OasisStream *in = &s;
    c19_env(); c19_in_stream(in);
    size_t size, count; VF_IN(u64, IN_size); VF_IN(u64, IN_count);
    size = IN_size; count = IN_count;
    VF_ASSUME(size >= 1 && size <= 16 && count <= 4096 && size * count <= sizeof(IN_buf));
    void *buffer = IN_buf;
    VF_CALL_R(ErrorCode, r, oasis_read, buffer, size, count, in);
    (void)r;
}
#endif
#ifdef VF_ENTRY_h_stream_peek
void h_stream_peek(void) {
    OasisStream s; OasisStream *in = &s;
    c19_env(); c19_in_stream(in);
    VF_CALL_R(uint8_t, r, oasis_peek, in);
    (void)r;
}
#endif
#ifdef VF_ENTRY_h_stream_write
void h_stream_write(void) {
    OasisStream s; OasisStream *out = &s;
    c19_env(); c19_out_stream(out);
    size_t size, count; VF_IN(u64, IN_size); VF_IN(u64, IN_count);
    size = IN_size; count = IN_count;
    VF_IN_ARR(IN_buf);
    VF_ASSUME(size >= 1 && size <= 16 && count <= 16 && size * count <= sizeof(IN_buf));
    void *buffer = IN_buf;
    VF_CALL_R(size_t, r, oasis_write, buffer, size, count, out);
    (void)r;
}
#endif
#ifdef VF_ENTRY_h_stream_putc
void h_stream_putc(void) {
    OasisStream s; OasisStream *out = &s;
    c19_env(); c19_out_stream(out);
    int c; VF_IN(int, IN_c); c = IN_c;
    VF_CALL_R(int, r, oasis_putc, c, out);
    (void)r;
}
#endif

/* ------------------------------------------------------------------ point lists (writer side, bounded) */
#ifdef VF_ENTRY_h_point_list_write
#define PL_N 4
int64_t IN_ptx[PL_N], IN_pty[PL_N];
uint64_t IN_npts; bool IN_closed;
static IntVec2 c19_pts[PL_N];
static Array_IntVec2 c19_points;
void h_point_list_write(void) {
    OasisStream s; OasisStream *out = &s;
    c19_env(); c19_out_stream(out);
    VF_IN(u64, IN_npts); VF_IN(bool, IN_closed); VF_IN_ARR(IN_ptx); VF_IN_ARR(IN_pty);
    VF_ASSUME(IN_npts <= PL_N);
    for (int k = 0; k < PL_N; k++) {
        /* scaled layout coordinates: well inside 62 bits, so that differences cannot overflow */
        VF_ASSUME(IN_ptx[k] > -(1LL << 61) && IN_ptx[k] < (1LL << 61) && IN_pty[k] > -(1LL << 61) && IN_pty[k] < (1LL << 61));
        c19_pts[k].x = IN_ptx[k]; c19_pts[k].y = IN_pty[k];
    }
    c19_points.count = IN_npts; c19_points.capacity = PL_N; c19_points.items = c19_pts;
    oasis_write_point_list__OasisStream_ref_Array_IntVec2_ref_bool(out, &c19_points, IN_closed);
    /* (a) the deltas are computed in place; the reference point and the count are untouched */
    VF_ASSERT(c19_points.count == IN_npts && c19_points.items == c19_pts, "the array header is untouched");
    if (IN_npts >= 1) VF_ASSERT(c19_pts[0].x == IN_ptx[0] && c19_pts[0].y == IN_pty[0], "the reference point is untouched");
    for (int k = 1; k < PL_N; k++) if ((uint64_t)k < IN_npts)
        VF_ASSERT(c19_pts[k].x == IN_ptx[k] - IN_ptx[k - 1] && c19_pts[k].y == IN_pty[k] - IN_pty[k - 1], "entry k holds the delta to its predecessor");
    /* (b) "the chosen list type admits every delta" is checked by CBMC at every call of the replaced
     * oasis_write_2delta / oasis_write_3delta / oasis_write_integer: their requires clauses (the asserts of
     * the source) are obligations of this run */
    VF_REACHED();
}
#endif
