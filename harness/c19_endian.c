/* harnesses for the byte-order helpers: buffers of arbitrary length */
uint64_t IN_n;
#define SWAP_HARNESS(NAME, FN, T)                                             \
    void NAME(void) {                                                        \
        uint64_t n; VF_IN(u64, IN_n); n = IN_n;                              \
        VF_ASSUME(n <= SWAP_MAXN);                                           \
        T *buffer = (T *)malloc(n * sizeof(T) + 1);                          \
        VF_ASSUME(buffer != NULL);                                           \
        VF_NATIVE_ONLY(for (uint64_t i = 0; i < n; i++) buffer[i] = (T)vf_input("IN_fill", 0x0102030405060708ULL) + (T)i;) \
        VF_CALL_V(FN, buffer, n);                                            \
        free(buffer);                                                        \
    }
#ifdef VF_CBMC
#define SWAP_MAXN 0x100000000UL
#else
#define SWAP_MAXN 4096
#endif
#ifdef VF_ENTRY_h_swap16
SWAP_HARNESS(h_swap16, big_endian_swap16, uint16_t)
#endif
#ifdef VF_ENTRY_h_swap32
SWAP_HARNESS(h_swap32, big_endian_swap32, uint32_t)
#endif
#ifdef VF_ENTRY_h_swap64
SWAP_HARNESS(h_swap64, big_endian_swap64, uint64_t)
#endif
#ifdef VF_ENTRY_h_leswap16
SWAP_HARNESS(h_leswap16, little_endian_swap16, uint16_t)
#endif
#ifdef VF_ENTRY_h_leswap32
SWAP_HARNESS(h_leswap32, little_endian_swap32, uint32_t)
#endif
#ifdef VF_ENTRY_h_leswap64
SWAP_HARNESS(h_leswap64, little_endian_swap64, uint64_t)
#endif

#ifdef VF_ENTRY_h_swap16s
#undef SWAP_MAXN
#define SWAP_MAXN 12
SWAP_HARNESS(h_swap16s, big_endian_swap16, uint16_t)
#endif
#ifdef VF_ENTRY_h_swap32s
#undef SWAP_MAXN
#define SWAP_MAXN 4
SWAP_HARNESS(h_swap32s, big_endian_swap32, uint32_t)
#endif
#ifdef VF_ENTRY_h_swap64s
#undef SWAP_MAXN
#define SWAP_MAXN 4
SWAP_HARNESS(h_swap64s, big_endian_swap64, uint64_t)
#endif
