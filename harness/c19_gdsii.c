uint64_t IN_real;
#ifdef VF_ENTRY_h_gdsii_decode
void h_gdsii_decode(void) {
    uint64_t real; VF_IN(u64, IN_real); real = IN_real;
    VF_CALL_R(double, r, gdsii_real_to_double, real);
    (void)r;
}
#endif
