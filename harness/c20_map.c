/* harness for Map<uint64_t> with one-letter string keys: one operation from an arbitrary well-formed table */
#ifndef VF_CAP
#define VF_CAP 4
#endif
uint8_t IN_kc[VF_CAP], IN_occ[VF_CAP], IN_keyc;
uint64_t IN_vals[VF_CAP];
uint64_t IN_cap, IN_count, IN_gq;
static Map_uint64_t c20_mp;
static char c20_mkey[2];
static void c20_map_state(void) {
    VF_IN(u64, IN_cap); VF_IN(u64, IN_count); VF_IN_ARR(IN_kc); VF_IN_ARR(IN_occ); VF_IN_ARR(IN_vals); VF_IN(u64, IN_gq); VF_IN(u8, IN_keyc);
    VF_ASSUME(IN_cap == 0 || IN_cap == VF_CAP);
    VF_ASSUME(IN_keyc != 0);
    c20_mkey[0] = (char)IN_keyc; c20_mkey[1] = 0;
    c20_mp.capacity = IN_cap; c20_mp.count = IN_count; c20_mp.items = NULL;
    if (IN_cap) {
        c20_mp.items = (MapItem_uint64_t *)malloc(sizeof(MapItem_uint64_t) * VF_CAP);
        VF_ASSUME(c20_mp.items != NULL);
        for (uint64_t i = 0; i < VF_CAP; i++) {
            VF_ASSUME(IN_occ[i] <= 1);
            c20_mp.items[i].value = IN_vals[i];
            c20_mp.items[i].key = NULL;
            if (IN_occ[i]) {
                VF_ASSUME(IN_kc[i] != 0);
                char *k = (char *)malloc(2);
                VF_ASSUME(k != NULL);
                k[0] = (char)IN_kc[i]; k[1] = 0;
                c20_mp.items[i].key = k;
            }
        }
    }
    GQ = IN_gq;
}
#define MP_H(NAME, CALL)                       \
    void NAME(void) {                          \
        c20_map_state();                       \
        Map_uint64_t *this_ = &c20_mp;         \
        char *key = c20_mkey;                  \
        CALL;                                  \
    }
#ifdef VF_ENTRY_h_mp_get_slot
MP_H(h_mp_get_slot, VF_CALL_R(MapItem_uint64_t *, r, Map_uint64_t__get_slot, this_, key); (void)r)
#endif
#ifdef VF_ENTRY_h_mp_get
MP_H(h_mp_get, VF_CALL_R(uint64_t, r, Map_uint64_t__get, this_, key); (void)r)
#endif
#ifdef VF_ENTRY_h_mp_has
MP_H(h_mp_has, VF_CALL_R(bool, r, Map_uint64_t__has_key, this_, key); (void)r)
#endif
#ifdef VF_ENTRY_h_mp_del
MP_H(h_mp_del, VF_CALL_R(bool, r, Map_uint64_t__del, this_, key); (void)r)
#endif
