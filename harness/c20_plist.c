/* harnesses for the property lists (src/property.cpp): ONE operation on an ARBITRARY list of up to
 * PL_MAX properties whose names are one of two one-letter strings; every entry carries a unique id
 * in its value so that order and identity of the survivors can be checked against an ordered-multimap
 * model written here from the property statement.  Bounded stand-in (list length), checked with plain
 * assertions on the real (lowered) functions -- no contract replacement is involved. */
#ifndef PL_MAX
#define PL_MAX 3
#endif
uint8_t IN_pl_len, IN_pl_name[PL_MAX], IN_rm_name;
bool IN_all;
static char c20_key[2];

static Property *c20_build_list(void) {
    VF_IN(u8, IN_pl_len); VF_IN_ARR(IN_pl_name);
    VF_ASSUME(IN_pl_len <= PL_MAX);
    Property *head = NULL;
    for (int k = PL_MAX - 1; k >= 0; k--) {
        if (k < IN_pl_len) {
            VF_ASSUME(IN_pl_name[k] == 'a' || IN_pl_name[k] == 'b');
            Property *node = (Property *)malloc(sizeof(Property));
            char *nm = (char *)malloc(2);
            PropertyValue *val = (PropertyValue *)calloc(1, sizeof(PropertyValue));
            VF_ASSUME(node != NULL && nm != NULL && val != NULL);
            nm[0] = (char)IN_pl_name[k]; nm[1] = 0;
            val->type = PropertyType_UnsignedInteger;
            val->unsigned_integer = (uint64_t)k;
            val->next = NULL;
            node->name = nm; node->value = val; node->next = head;
            head = node;
        }
    }
    return head;
}
static const char *c20_key_in(void) {
    VF_IN(u8, IN_rm_name);
    VF_ASSUME(IN_rm_name == 'a' || IN_rm_name == 'b');
    c20_key[0] = (char)IN_rm_name; c20_key[1] = 0;
    return c20_key;
}
/* compare the list against the expected sequence of (name letter, id) pairs */
static void c20_check_list(Property *head, const uint8_t *names, const uint64_t *ids, int n) {
    Property *p = head;
    for (int k = 0; k < PL_MAX + 1; k++) {
        if (k < n) {
            VF_ASSERT(p != NULL, "list shorter than the model");
            if (p == NULL) return;
            VF_ASSERT(p->name != NULL && p->name[0] == (char)names[k] && p->name[1] == 0, "entry name differs from the model");
            VF_ASSERT(p->value != NULL && p->value->unsigned_integer == ids[k], "entry identity/order differs from the model");
            p = p->next;
        }
    }
    VF_ASSERT(p == NULL, "list longer than the model");
}

#ifdef VF_ENTRY_h_remove_property
void h_remove_property(void) {
    Property *head = c20_build_list();
    const char *name = c20_key_in();
    VF_IN(bool, IN_all);
    uint8_t en[PL_MAX]; uint64_t ei[PL_MAX]; int n = 0; uint64_t expect_removed = 0;
    for (int k = 0; k < PL_MAX; k++) {
        if (k < IN_pl_len) {
            if (IN_pl_name[k] == IN_rm_name && (IN_all || expect_removed == 0)) expect_removed++;
            else { en[n] = IN_pl_name[k]; ei[n] = (uint64_t)k; n++; }
        }
    }
    Property **properties = &head;
    uint64_t removed = remove_property(properties, (char *)name, IN_all);
    VF_ASSERT(removed == expect_removed, "number of removed properties differs from the model");
    c20_check_list(head, en, ei, n);
    properties_clear(properties);
    VF_ASSERT(head == NULL, "properties_clear leaves an empty list");
    VF_REACHED();
}
#endif
#ifdef VF_ENTRY_h_get_property
void h_get_property(void) {
    Property *head = c20_build_list();
    const char *name = c20_key_in();
    int first = -1;
    for (int k = PL_MAX - 1; k >= 0; k--) if (k < IN_pl_len && IN_pl_name[k] == IN_rm_name) first = k;
    PropertyValue *v = get_property(head, (char *)name);
    if (first < 0) VF_ASSERT(v == NULL, "absent name must give NULL");
    else VF_ASSERT(v != NULL && v->unsigned_integer == (uint64_t)first, "get_property returns the first entry with that name");
    Property **properties = &head;
    properties_clear(properties);
    VF_REACHED();
}
#endif
#ifdef VF_ENTRY_h_set_property
bool IN_create;
void h_set_property(void) {
    Property *head = c20_build_list();
    const char *name = c20_key_in();
    VF_IN(bool, IN_create);
    int first = -1;
    for (int k = PL_MAX - 1; k >= 0; k--) if (k < IN_pl_len && IN_pl_name[k] == IN_rm_name) first = k;
    Property **properties = &head;
    set_property__Property_p_ref_char_p_uint64_t_bool(properties, (char *)name, (uint64_t)77, IN_create);
    /* model: create_new or absent -> a new entry in front; otherwise the value is pushed onto the first match */
    Property *p = head;
    if (IN_create || first < 0) {
        VF_ASSERT(p != NULL && p->name[0] == (char)IN_rm_name && p->name[1] == 0, "new entry in front");
        VF_ASSERT(p->value != NULL && p->value->type == PropertyType_UnsignedInteger && p->value->unsigned_integer == 77 && p->value->next == NULL, "new entry holds exactly the value");
        p = p->next;
    }
    for (int k = 0; k < PL_MAX; k++) {
        if (k < IN_pl_len) {
            VF_ASSERT(p != NULL, "an old entry was lost");
            if (p == NULL) return;
            VF_ASSERT(p->name[0] == (char)IN_pl_name[k], "old entries keep their order");
            if (!IN_create && k == first) {
                VF_ASSERT(p->value->unsigned_integer == 77 && p->value->next != NULL && p->value->next->unsigned_integer == (uint64_t)k, "value pushed in front of the first match");
            } else {
                VF_ASSERT(p->value->unsigned_integer == (uint64_t)k && p->value->next == NULL, "other entries untouched");
            }
            p = p->next;
        }
    }
    VF_ASSERT(p == NULL, "no extra entries");
    properties_clear(properties);
}
#endif
