/* harness for Set<uint64_t>: one operation from an arbitrary well-formed table (see c20_tagmap.c) */
#ifndef VF_CAP
#define VF_CAP 4
#endif
uint64_t IN_keys[VF_CAP];
uint8_t IN_valid[VF_CAP];   /* 0 or 1 */
uint64_t IN_cap, IN_count, IN_key, IN_gq;
static Set_uint64_t c20_st;
static void c20_set_state(void) {
    VF_IN(u64, IN_cap); VF_IN(u64, IN_count); VF_IN_ARR(IN_keys); VF_IN_ARR(IN_valid); VF_IN(u64, IN_gq);
    VF_ASSUME(IN_cap == 0 || IN_cap == VF_CAP);
    c20_st.capacity = IN_cap; c20_st.count = IN_count; c20_st.items = NULL;
    if (IN_cap) {
        c20_st.items = (SetItem_uint64_t *)malloc(sizeof(SetItem_uint64_t) * VF_CAP);
        VF_ASSUME(c20_st.items != NULL);
        for (uint64_t i = 0; i < VF_CAP; i++) { c20_st.items[i].value = IN_keys[i]; VF_ASSUME(IN_valid[i] <= 1); c20_st.items[i].valid = (IN_valid[i] == 1); }
    }
    GQ = IN_gq;
}
#define ST_H(NAME, CALL)                       \
    void NAME(void) {                          \
        c20_set_state();                       \
        Set_uint64_t *this_ = &c20_st;         \
        uint64_t value; VF_IN(u64, IN_key); value = IN_key; \
        CALL;                                  \
        if (c20_st.items) free(c20_st.items);  \
    }
#ifdef VF_ENTRY_h_st_get_slot
ST_H(h_st_get_slot, VF_CALL_R(SetItem_uint64_t *, r, Set_uint64_t__get_slot, this_, value); (void)r)
#endif
#ifdef VF_ENTRY_h_st_add_nogrow
#define VF_PRE_Set_uint64_t__add VF_PRE_Set_uint64_t__add
ST_H(h_st_add_nogrow, VF_CALL_V(Set_uint64_t__add, this_, value))
#endif
#ifdef VF_ENTRY_h_st_del
ST_H(h_st_del, VF_CALL_R(bool, r, Set_uint64_t__del, this_, value); (void)r)
#endif
#ifdef VF_ENTRY_h_st_has
ST_H(h_st_has, VF_CALL_R(bool, r, Set_uint64_t__has_value, this_, value); (void)r)
#endif
