/* harness for sorting: every array of up to VF_SORTN doubles (no NaN), default ordering */
int64_t IN_count; uint64_t IN_gk; double IN_q;
double IN_items[VF_SORTN];
#define SORT_HARNESS(NAME, FN)                                                    \
    void NAME(void) {                                                            \
        VF_IN(i64, IN_count); VF_IN(u64, IN_gk); VF_IN(double, IN_q); VF_IN_ARR(IN_items); \
        GK = IN_gk; GQd = IN_q;                                                   \
        VF_ASSUME(IN_count >= 0 && IN_count <= VF_SORTN);                         \
        int64_t count = IN_count;                                                 \
        double *items = count ? (double *)malloc(sizeof(double) * VF_SORTN) : NULL; \
        VF_ASSUME(count == 0 || items != NULL);                                   \
        for (int64_t i = 0; i < VF_SORTN; i++) if (i < count) items[i] = IN_items[i]; \
        bool (*sorted)(double *, double *) = default_sorted_double;               \
        VF_CALL_V(FN, items, count, sorted);                                      \
        if (items) free(items);                                                   \
    }
#ifdef VF_ENTRY_h_heap_sort
SORT_HARNESS(h_heap_sort, heap_sort_double)
#endif
#ifdef VF_ENTRY_h_insertion_sort
SORT_HARNESS(h_insertion_sort, insertion_sort_double)
#endif
#ifdef VF_ENTRY_h_sort
SORT_HARNESS(h_sort, sort_double__double_p_int64_t_fn_265ab2_p)
#endif
