/* harness for TagMap: ONE operation from an ARBITRARY well-formed table (capacity 0 or VF_CAP,
 * arbitrary slot contents subject to the representation invariant, arbitrary hash function).
 * Proving every operation from every well-formed state covers operation sequences of any length. */
#ifndef VF_CAP
#define VF_CAP 4
#endif
uint64_t IN_keys[VF_CAP], IN_vals[VF_CAP];
uint64_t IN_cap, IN_count, IN_key, IN_value, IN_gq;

static TagMap c20_tm;
static void c20_tagmap_state(void) {
    VF_IN(u64, IN_cap); VF_IN(u64, IN_count); VF_IN_ARR(IN_keys); VF_IN_ARR(IN_vals);
    VF_IN(u64, IN_gq);
    VF_ASSUME(IN_cap == 0 || IN_cap == VF_CAP);
    c20_tm.capacity = IN_cap;
    c20_tm.count = IN_count;
    c20_tm.items = NULL;
    if (IN_cap) {
        c20_tm.items = (TagMapItem *)malloc(sizeof(TagMapItem) * VF_CAP);
        VF_ASSUME(c20_tm.items != NULL);
        for (uint64_t i = 0; i < VF_CAP; i++) {
            c20_tm.items[i].key = IN_keys[i];
            c20_tm.items[i].value = IN_vals[i];
        }
    }
    GQ = IN_gq;
}
static void c20_tagmap_done(void) {
    if (c20_tm.items) free(c20_tm.items);
}
#if defined(VF_ENTRY_h_tm_set) || defined(VF_ENTRY_h_tm_set_nogrow)
#ifdef VF_ENTRY_h_tm_set_nogrow
#define h_tm_set h_tm_set_nogrow
#endif
void h_tm_set(void) {
    c20_tagmap_state();
    TagMap *this_ = &c20_tm;
    uint64_t key, value; VF_IN(u64, IN_key); VF_IN(u64, IN_value); key = IN_key; value = IN_value;
    VF_CALL_V(TagMap__set, this_, key, value);
    c20_tagmap_done();
}
#endif
#ifdef VF_ENTRY_h_tm_del
void h_tm_del(void) {
    c20_tagmap_state();
    TagMap *this_ = &c20_tm;
    uint64_t key; VF_IN(u64, IN_key); key = IN_key;
    VF_CALL_R(bool, r, TagMap__del, this_, key);
    (void)r;
    c20_tagmap_done();
}
#endif
#ifdef VF_ENTRY_h_tm_get
void h_tm_get(void) {
    c20_tagmap_state();
    TagMap *this_ = &c20_tm;
    uint64_t key; VF_IN(u64, IN_key); key = IN_key;
    VF_CALL_R(uint64_t, r, TagMap__get, this_, key);
    (void)r;
    c20_tagmap_done();
}
#endif
#ifdef VF_ENTRY_h_tm_has
void h_tm_has(void) {
    c20_tagmap_state();
    TagMap *this_ = &c20_tm;
    uint64_t key; VF_IN(u64, IN_key); key = IN_key;
    VF_CALL_R(bool, r, TagMap__has_key, this_, key);
    (void)r;
    c20_tagmap_done();
}
#endif

#ifdef VF_ENTRY_h_tm_get_slot
void h_tm_get_slot(void) {
    c20_tagmap_state();
    TagMap *this_ = &c20_tm;
    uint64_t key; VF_IN(u64, IN_key); key = IN_key;
    VF_CALL_R(TagMapItem *, r, TagMap__get_slot, this_, key);
    (void)r;
    c20_tagmap_done();
}
#endif
#ifdef VF_ENTRY_h_tm_resize
uint64_t IN_newcap;
void h_tm_resize(void) {
    c20_tagmap_state();
    TagMap *this_ = &c20_tm;
    uint64_t new_capacity; VF_IN(u64, IN_newcap); new_capacity = IN_newcap;
    VF_CALL_V(TagMap__resize, this_, new_capacity);
    c20_tagmap_done();
}
#endif
#ifdef VF_ENTRY_h_tm_next
uint64_t IN_cur;
void h_tm_next(void) {
    c20_tagmap_state();
    TagMap *this_ = &c20_tm;
    VF_IN(u64, IN_cur); VF_IN(u64, GK);
    TagMapItem *current = (IN_cur < c20_tm.capacity) ? c20_tm.items + IN_cur : NULL;
    VF_CALL_R(TagMapItem *, r, TagMap__next, this_, current);
    (void)r;
    c20_tagmap_done();
}
#endif
