/* vf.h -- one harness source, two compilations.
 *
 *  -DVF_CBMC   : the harness is compiled by goto-cc together with the C lowered from /repo by
 *                tools/cxx2c.py; inputs are nondeterministic; the function under contract is
 *                checked by goto-instrument --dfcc (requires assumed, ensures/assigns asserted).
 *  (otherwise) : the same harness is compiled by g++ against the REAL gdstk sources (adapters
 *                generated from the same AST map the flat C names to the C++ functions); inputs
 *                come from a replay file written from CBMC's counterexample; VF_PRE/VF_POST
 *                evaluate the contract natively.  Built with ASan+UBSan.
 */
#ifndef VF_H
#define VF_H
#include <stdint.h>
#include <stddef.h>
#include <stdbool.h>
#include <stdio.h>
#include <stdlib.h>
#include <string.h>
#include <math.h>
#include <float.h>
#include <limits.h>

#ifdef VF_CBMC
/* ---------------------------------------------------------------- CBMC side */
uint8_t nondet_u8(void);
uint16_t nondet_u16(void);
uint32_t nondet_u32(void);
uint64_t nondet_u64(void);
int64_t nondet_i64(void);
int nondet_int(void);
bool nondet_bool(void);
double nondet_double(void);
float nondet_float(void);
#define VF_ASSERT(c, msg) __CPROVER_assert((c), msg)
#define VF_ASSUME(c) __CPROVER_assume(c)
#define VF_COVER(c) __CPROVER_cover(c)
#define VF_IN(T, name) name = nondet_##T()
#define VF_IN_ARR(name) __CPROVER_havoc_object(name)
#define VF_IN_ARR2(name) __CPROVER_havoc_object(name)
#define VF_R_OK(p, n) __CPROVER_r_ok((p), (n))
#define VF_W_OK(p, n) __CPROVER_w_ok((p), (n))
#define VF_ENUM(E, C) E##_##C
#define VF_NATIVE_ONLY(x)
#define VF_CBMC_ONLY(x) x
#define VF_OLD(e) __CPROVER_old(e)
#else
/* ---------------------------------------------------------------- native side */
#ifdef __cplusplus
extern "C" {
#endif
extern int vf_failed;
uint64_t vf_input(const char *name, uint64_t dflt);
void vf_input_arr(const char *name, void *dst, size_t elem, size_t n);
void vf_input_arr2(const char *name, void *dst, size_t elem, size_t n, size_t m);
void vf_load(const char *path);
void vf_out(const char *name, uint64_t v);
#ifdef __cplusplus
}
#endif
typedef uint8_t u8; typedef uint16_t u16; typedef uint32_t u32; typedef uint64_t u64; typedef int64_t i64;
static inline double vf_bits_double(uint64_t b) { double d; memcpy(&d, &b, 8); return d; }
static inline float vf_bits_float(uint32_t b) { float d; memcpy(&d, &b, 4); return d; }
#define vf_cast_u8(x) ((uint8_t)(x))
#define vf_cast_u16(x) ((uint16_t)(x))
#define vf_cast_u32(x) ((uint32_t)(x))
#define vf_cast_u64(x) ((uint64_t)(x))
#define vf_cast_i64(x) ((int64_t)(x))
#define vf_cast_int(x) ((int)(x))
#define vf_cast_bool(x) ((bool)((x) & 1))
#define vf_cast_double(x) vf_bits_double(x)
#define vf_cast_float(x) vf_bits_float((uint32_t)(x))
#define VF_ASSERT(c, msg) do { if (!(c)) { printf("VF_FAIL %s\n", msg); vf_failed = 1; } } while (0)
#define VF_ASSUME(c) do { if (!(c)) { printf("VF_PRECONDITION_NOT_MET %s\n", #c); fflush(stdout); _Exit(3); } } while (0)
#define VF_COVER(c) ((void)0)
#define VF_IN(T, name) name = vf_cast_##T(vf_input(#name, 0))
#define VF_IN_ARR(name) vf_input_arr(#name, name, sizeof(name[0]), sizeof(name) / sizeof(name[0]))
#define VF_IN_ARR2(name) vf_input_arr2(#name, name, sizeof(name[0][0]), sizeof(name) / sizeof(name[0]), sizeof(name[0]) / sizeof(name[0][0]))
#define VF_R_OK(p, n) ((p) != NULL || (n) == 0)
#define VF_W_OK(p, n) ((p) != NULL || (n) == 0)
#define VF_ENUM(E, C) gdstk::E::C
#define VF_NATIVE_ONLY(x) x
#define VF_CBMC_ONLY(x)
#endif

/* double division: bit-precise by default; a group may abstract it as an uninterpreted function
 * (sound over-approximation: whatever is proved holds for IEEE division too; used where the
 * proof only needs congruence a == b ==> 1/a == 1/b and SAT cannot decide two 53-bit dividers) */
#if defined(VF_CBMC) && (defined(VF_UF_FDIV) || defined(VF_UF_FP))
uint64_t __CPROVER_uninterpreted_fdiv(uint64_t, uint64_t);   /* on bit patterns, see VF_UF_FP below */
/* IEEE division is sign(a) xor sign(b) applied to |a| / |b| (exactly, for every operand pair that
 * does not give NaN); only the quotient of the magnitudes is abstracted */
static inline double vf_fdiv(double a, double b) {
    union { double d; uint64_t u; } pa, pb, pq;
    pa.d = a; pb.d = b;
    bool neg = ((pa.u ^ pb.u) >> 63) != 0;
    pa.u &= 0x7FFFFFFFFFFFFFFFUL; pb.u &= 0x7FFFFFFFFFFFFFFFUL;
    const uint64_t INF = 0x7FF0000000000000UL;
    if (pa.u > INF || pb.u > INF) pq.u = 0x7FF8000000000000UL;             /* NaN operand */
    else if (pa.u == INF) pq.u = (pb.u == INF) ? 0x7FF8000000000000UL : INF; /* inf/inf, inf/x */
    else if (pb.u == INF) pq.u = 0;                                          /* x/inf */
    else if (pb.u == 0) pq.u = (pa.u == 0) ? 0x7FF8000000000000UL : INF;     /* 0/0, x/0 */
    else if (pa.u == 0) pq.u = 0;                                            /* 0/x */
    else {
        /* finite non-zero magnitudes: the quotient is abstract, but never negative, never NaN, and a
         * numerator >= 1 cannot underflow to zero (1/DBL_MAX is a positive subnormal) */
        pq.u = __CPROVER_uninterpreted_fdiv(pa.u, pb.u);
        pq.u &= 0x7FFFFFFFFFFFFFFFUL;
        __CPROVER_assume(pq.u <= INF);
        __CPROVER_assume(!(pa.d >= 1.0) || pq.u != 0);
    }
    return neg ? -pq.d : pq.d;
}
#define VF_FDIV(a, b) vf_fdiv((a), (b))
#else
#define VF_FDIV(a, b) ((a) / (b))
#endif

/* double +, -, *: bit-precise by default; with the group option uf_fp the lowering routes them
 * through these macros and the proof treats them as uninterpreted functions (sound: what is proved
 * for arbitrary functions holds for the IEEE operations; used where a postcondition is "the same
 * expression of the same inputs" and SAT cannot decide the equivalence of two FP circuits) */
#if defined(VF_CBMC) && defined(VF_UF_FP)
/* the uninterpreted functions take and return BIT PATTERNS: congruence is then on bit equality
 * (an uninterpreted function over doubles would be congruent modulo IEEE equality, which conflates
 * +0 and -0 and never matches NaN -- not an over-approximation of the real operations) */
uint64_t __CPROVER_uninterpreted_fadd(uint64_t, uint64_t);
uint64_t __CPROVER_uninterpreted_fsub(uint64_t, uint64_t);
uint64_t __CPROVER_uninterpreted_fmul(uint64_t, uint64_t);
static inline uint64_t vf_d2u(double d) { union { double d; uint64_t u; } p; p.d = d; return p.u; }
static inline double vf_u2d(uint64_t u) { union { double d; uint64_t u; } p; p.u = u; return p.d; }
static inline double vf_fadd(double a, double b) { return vf_u2d(__CPROVER_uninterpreted_fadd(vf_d2u(a), vf_d2u(b))); }
static inline double vf_fsub(double a, double b) { return vf_u2d(__CPROVER_uninterpreted_fsub(vf_d2u(a), vf_d2u(b))); }
static inline double vf_fmul(double a, double b) { return vf_u2d(__CPROVER_uninterpreted_fmul(vf_d2u(a), vf_d2u(b))); }
#define VF_FADD(a, b) vf_fadd((a), (b))
#define VF_FSUB(a, b) vf_fsub((a), (b))
#define VF_FMUL(a, b) vf_fmul((a), (b))
#else
#define VF_FADD(a, b) ((a) + (b))
#define VF_FSUB(a, b) ((a) - (b))
#define VF_FMUL(a, b) ((a) * (b))
#endif

/* reachability probe for harnesses that use plain assertions (no enforced contract): the runner
 * re-runs the group with VF_VACUITY_PROBE defined and requires this assertion to FAIL */
#if defined(VF_CBMC) && defined(VF_VACUITY_PROBE)
#define VF_REACHED() __CPROVER_assert(0, "VF_VACUITY probe: end of harness reached")
#else
#define VF_REACHED() ((void)0)
#endif

/* calling the function under contract: under CBMC the contract is enforced by --dfcc at this call;
 * natively the generated VF_PRE_/VF_SNAP_/VF_POST_ macros evaluate the same clauses.  The harness
 * must name its variables like the function's parameters. */
#ifdef VF_CBMC
#define VF_CALL_R(T, r, f, ...) T r = f(__VA_ARGS__)
#define VF_CALL_V(f, ...) f(__VA_ARGS__)
#else
/* two levels so that a macro passed as the function name is expanded before token pasting */
#define VF_CALL_R(T, r, f, ...) VF_CALL_R2(T, r, f, __VA_ARGS__)
#define VF_CALL_V(f, ...) VF_CALL_V2(f, __VA_ARGS__)
#define VF_CALL_R2(T, r, f, ...) VF_ASSUME(VF_PRE_##f); VF_SNAP_##f T r = f(__VA_ARGS__); VF_POST_##f(r)
#define VF_CALL_V2(f, ...) VF_ASSUME(VF_PRE_##f); VF_SNAP_##f f(__VA_ARGS__); VF_POST_##f(0)
#endif
#endif
