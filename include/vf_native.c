/* native side of vf.h: replay-file reader.  File format: one "name value" or "name[idx] value"
 * per line, value = unsigned decimal of the raw bits. Unknown names default to 0. */
#include <stdint.h>
#include <stdio.h>
#include <stdlib.h>
#include <string.h>
#ifdef __cplusplus
extern "C" {
#endif
int vf_failed = 0;
#define VF_MAXIN 65536
static struct { char name[96]; uint64_t v; } vf_tab[VF_MAXIN];
static int vf_n = 0;
void vf_load(const char *path) {
    FILE *f = fopen(path, "r");
    if (!f) { fprintf(stderr, "vf_load: cannot open %s\n", path); exit(2); }
    char nm[96]; unsigned long long v;
    while (vf_n < VF_MAXIN && fscanf(f, "%95s %llu", nm, &v) == 2) {
        strcpy(vf_tab[vf_n].name, nm); vf_tab[vf_n].v = v; vf_n++;
    }
    fclose(f);
}
uint64_t vf_input(const char *name, uint64_t dflt) {
    for (int i = vf_n - 1; i >= 0; i--) if (strcmp(vf_tab[i].name, name) == 0) return vf_tab[i].v;
    return dflt;
}
void vf_input_arr(const char *name, void *dst, size_t elem, size_t n) {
    char key[128];
    for (size_t i = 0; i < n; i++) {
        snprintf(key, sizeof key, "%s[%zu]", name, i);
        uint64_t v = vf_input(key, 0);
        memcpy((char *)dst + i * elem, &v, elem); /* little-endian host */
    }
}
void vf_input_arr2(const char *name, void *dst, size_t elem, size_t n, size_t m) {
    char key[160];
    for (size_t i = 0; i < n; i++) for (size_t j = 0; j < m; j++) {
        snprintf(key, sizeof key, "%s[%zu][%zu]", name, i, j);
        uint64_t v = vf_input(key, 0);
        memcpy((char *)dst + (i * m + j) * elem, &v, elem);
    }
}
void vf_out(const char *name, uint64_t v) { printf("VF_OUT %s %llu\n", name, (unsigned long long)v); }
#ifdef __cplusplus
}
#endif
