/* alloc_models.h -- realloc for --dfcc proofs (goto-instrument does not pull CBMC's library body for it,
 * so an unmodelled realloc returns an arbitrary pointer).  Model: a fresh block; growing an existing
 * block is outside what the groups using this model do (asserted, so it cannot go unnoticed). */
#ifndef VF_ALLOC_MODELS_H
#define VF_ALLOC_MODELS_H
#ifdef VF_REALLOC_MOVES
/* general form used where the content of the block does not matter to the obligations (gds_info):
 * a fresh block whose content is unspecified; the old block is released */
void *realloc(void *ptr, size_t size) {
    /* a request beyond any address space is a defect of the caller (it can only fail or be a wrapped size) */
    __CPROVER_assert(size < ((size_t)1 << 47), "allocation size is not a wrapped-around / absurd value");
    __CPROVER_assume(size < ((size_t)1 << 47));
    void *n = malloc(size);
    __CPROVER_assume(n != NULL);
    if (ptr != NULL) free(ptr);
    return n;
}
#else
void *realloc(void *ptr, size_t size) {
    __CPROVER_assert(ptr == NULL, "model limit: realloc is only modelled for a NULL block");
    void *n = malloc(size);
    __CPROVER_assume(n != NULL);
    return n;
}
#endif
/* calloc: CBMC's library model may return NULL even with --no-malloc-may-fail; gdstk never checks the
 * result of allocate_clear (allocation failure is outside every property), so: a fresh zeroed block */
void *calloc(size_t n, size_t size) {
    void *p = malloc(n * size);
    __CPROVER_assume(p != NULL);
    __CPROVER_array_set((char *)p, 0);
    return p;
}
#endif
