/* models for callees of Reference::apply_repetition that live in other translation units.  get_offsets is
 * the subject of its own (parked) groups; here it hands out the harness's offset list IN_off[0..IN_noff),
 * which by C11 starts with the zero vector when the repetition is not empty. */
#ifndef VF_APPLY_REP_MODELS_H
#define VF_APPLY_REP_MODELS_H
void Repetition__get_offsets(Repetition *this_, Array_Vec2 *result) {
    if (IN_noff == 0) return;
    result->items = (Vec2 *)malloc(sizeof(Vec2) * IN_noff);
    __CPROVER_assume(result->items != NULL);
    result->capacity = IN_noff;
    for (uint64_t k = 0; k < 3; k++) if (k < IN_noff) { result->items[k].x = IN_offx[k]; result->items[k].y = IN_offy[k]; }
    result->count = IN_noff;
}
void Repetition__clear(Repetition *this_) { memset(this_, 0, sizeof(Repetition)); }
void Repetition__copy_from(Repetition *this_, Repetition repetition) { *this_ = repetition; }
Property *properties_copy(Property *properties) { return properties ? G_propcopy : NULL; }
char *copy_string(char *str, uint64_t *len) { char *r = (char *)malloc(2); __CPROVER_assume(r != NULL); r[0] = str[0]; r[1] = 0; return r; }
#endif
