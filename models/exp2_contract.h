/* exp2: uninterpreted (ASSUMED; CBMC's own model of exp2 is not exact) */
#ifndef VF_EXP2_CONTRACT_H
#define VF_EXP2_CONTRACT_H
double exp2(double x)
__CPROVER_requires(1)
__CPROVER_assigns()
__CPROVER_ensures(spec_bits(__CPROVER_return_value) == __CPROVER_uninterpreted_exp2(spec_bits(x)))
;
#endif
