/* model of Repetition::get_extrema (src/repetition.cpp, another translation unit) for the proof of the
 * repetition part of Polygon::bounding_box: appends the harness's IN_next <= 4 extreme offsets. */
#ifndef VF_EXTREMA_MODEL_H
#define VF_EXTREMA_MODEL_H
void Repetition__get_extrema(Repetition *this_, Array_Vec2 *result) {
    if (IN_next == 0) return;
    result->items = (Vec2 *)malloc(sizeof(Vec2) * 4);
    __CPROVER_assume(result->items != NULL);
    result->capacity = 4;
    /* unrolled: a loop without a contract inside a --apply-loop-contracts run trips the frame check */
    if (0 < IN_next) { result->items[0].x = IN_ex[0]; result->items[0].y = IN_ey[0]; }
    if (1 < IN_next) { result->items[1].x = IN_ex[1]; result->items[1].y = IN_ey[1]; }
    if (2 < IN_next) { result->items[2].x = IN_ex[2]; result->items[2].y = IN_ey[2]; }
    if (3 < IN_next) { result->items[3].x = IN_ex[3]; result->items[3].y = IN_ey[3]; }
    result->count = IN_next;
}
#endif
