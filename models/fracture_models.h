/* models for callees of Polygon::fracture that live in other translation units (group fracture_fits):
 * a copy is a copy.  slice() (ClipperLib) and the sort must not be reached in that group. */
#ifndef VF_FRACTURE_MODELS_H
#define VF_FRACTURE_MODELS_H
void Repetition__copy_from(Repetition *this_, Repetition repetition) { *this_ = repetition; }
Property *properties_copy(Property *properties) { return G_propcopy; }
ErrorCode slice(Polygon *polygon, Array_double *positions, bool x_axis, double scaling, Array_Polygon_p *result) {
    __CPROVER_assert(0, "slice() must not be reached for a polygon that fits the limit");
    return ErrorCode_NoError;
}
#endif
