/* gdstk_models.h -- bodies for gdstk helpers that live in another translation unit than the one being
 * lowered (the lowered unit only has their prototype).  copy_string is lowered from src/utils.cpp in
 * its own right elsewhere; this copy follows its documented behaviour: a fresh NUL-terminated copy. */
#ifndef VF_GDSTK_MODELS_H
#define VF_GDSTK_MODELS_H
char *copy_string(char *str, uint64_t *len) {
    uint64_t n = 0;
    while (str[n]) n++;
    char *r = (char *)malloc(n + 1);
    __CPROVER_assume(r != NULL);
    for (uint64_t i = 0; i <= n; i++) r[i] = str[i];
    if (len) *len = n + 1;
    return r;
}
#endif
