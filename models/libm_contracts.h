/* libm: cos and sin as uninterpreted functions (ASSUMED): a proof that goes through holds for any
 * values of cos/sin, so only the algebraic shape of the code matters (DESIGN.md 3.3) */
#ifndef VF_LIBM_CONTRACTS_H
#define VF_LIBM_CONTRACTS_H
static inline uint64_t vf_dbits(double d) { union { double d; uint64_t u; } p; p.d = d; return p.u; }
uint64_t __CPROVER_uninterpreted_cos(uint64_t);   /* on bit patterns: congruence is bit equality */
uint64_t __CPROVER_uninterpreted_sin(uint64_t);
double cos(double x)
__CPROVER_requires(1)
__CPROVER_assigns()
__CPROVER_ensures(vf_dbits(__CPROVER_return_value) == __CPROVER_uninterpreted_cos(vf_dbits(x)))
;
double sin(double x)
__CPROVER_requires(1)
__CPROVER_assigns()
__CPROVER_ensures(vf_dbits(__CPROVER_return_value) == __CPROVER_uninterpreted_sin(vf_dbits(x)))
;
#ifdef VF_FABS_CONTRACT
/* fabs: exactly the IEEE operation (sign bit cleared); ASSUMED for libm's fabs */
double fabs(double x)
__CPROVER_requires(1)
__CPROVER_assigns()
__CPROVER_ensures(vf_dbits(__CPROVER_return_value) == (vf_dbits(x) & 0x7FFFFFFFFFFFFFFFUL))
;
#endif
#endif
