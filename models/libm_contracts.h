/* libm: cos and sin as uninterpreted functions (ASSUMED): a proof that goes through holds for any
 * values of cos/sin, so only the algebraic shape of the code matters (DESIGN.md 3.3) */
#ifndef VF_LIBM_CONTRACTS_H
#define VF_LIBM_CONTRACTS_H
static inline uint64_t vf_dbits(double d) { union { double d; uint64_t u; } p; p.d = d; return p.u; }
double __CPROVER_uninterpreted_cos(double);
double __CPROVER_uninterpreted_sin(double);
double cos(double x)
__CPROVER_requires(1)
__CPROVER_assigns()
__CPROVER_ensures(vf_dbits(__CPROVER_return_value) == vf_dbits(__CPROVER_uninterpreted_cos(x)))
;
double sin(double x)
__CPROVER_requires(1)
__CPROVER_assigns()
__CPROVER_ensures(vf_dbits(__CPROVER_return_value) == vf_dbits(__CPROVER_uninterpreted_sin(x)))
;
#endif
