/* stdio_contracts.h -- ASSUMED contracts for the stdio calls gdstk makes (CBMC side only).
 * They are never enforced (libc is outside the verified code); every proof that uses one lists
 * it under "assumptions".  They describe a regular file: bytes come back as they are on the
 * tape, a read is short exactly when the file ends; a write appends.
 * Content clauses: one explicit clause per byte for the first few bytes (what a caller that
 * decodes small fixed-width items needs) plus one ghost-index clause (GK / GK2) for the rest. */
#ifndef VF_STDIO_CONTRACTS_H
#define VF_STDIO_CONTRACTS_H

#define VF_SEEK_TARGET ((whence == SEEK_SET ? 0L : whence == SEEK_CUR ? (long)__CPROVER_old(G_pos) : (long)__CPROVER_old(G_len)) + off)
#define VF_FREAD_TOTAL (size * count)
#define VF_FREAD_GOT ((VF_FREAD_TOTAL) <= (__CPROVER_old(G_len) - __CPROVER_old(G_pos)) ? (VF_FREAD_TOTAL) : (__CPROVER_old(G_len) - __CPROVER_old(G_pos)))

size_t fread(void *ptr, size_t size, size_t count, FILE *stream)
__CPROVER_requires(stream == G_file && __CPROVER_r_ok(stream, 1) && G_open == 1)
__CPROVER_requires(size > 0 && size <= 65536 && count <= 65536)
__CPROVER_requires(__CPROVER_w_ok(ptr, size * count))
__CPROVER_requires(G_pos <= G_len && G_len <= VF_TAPE_MAX)
__CPROVER_assigns(G_pos, G_eof, __CPROVER_object_upto(ptr, size * count))
__CPROVER_ensures(G_pos == __CPROVER_old(G_pos) + VF_FREAD_GOT)
__CPROVER_ensures(__CPROVER_return_value == VF_FREAD_GOT / size)
__CPROVER_ensures(GK < VF_FREAD_GOT ==> ((uint8_t *)ptr)[GK] == IN_tape[__CPROVER_old(G_pos) + GK])
__CPROVER_ensures(0 < VF_FREAD_GOT ==> ((uint8_t *)ptr)[0] == IN_tape[__CPROVER_old(G_pos) + 0])
__CPROVER_ensures(1 < VF_FREAD_GOT ==> ((uint8_t *)ptr)[1] == IN_tape[__CPROVER_old(G_pos) + 1])
__CPROVER_ensures(2 < VF_FREAD_GOT ==> ((uint8_t *)ptr)[2] == IN_tape[__CPROVER_old(G_pos) + 2])
__CPROVER_ensures(3 < VF_FREAD_GOT ==> ((uint8_t *)ptr)[3] == IN_tape[__CPROVER_old(G_pos) + 3])
__CPROVER_ensures(4 < VF_FREAD_GOT ==> ((uint8_t *)ptr)[4] == IN_tape[__CPROVER_old(G_pos) + 4])
__CPROVER_ensures(5 < VF_FREAD_GOT ==> ((uint8_t *)ptr)[5] == IN_tape[__CPROVER_old(G_pos) + 5])
__CPROVER_ensures(6 < VF_FREAD_GOT ==> ((uint8_t *)ptr)[6] == IN_tape[__CPROVER_old(G_pos) + 6])
__CPROVER_ensures(7 < VF_FREAD_GOT ==> ((uint8_t *)ptr)[7] == IN_tape[__CPROVER_old(G_pos) + 7])
__CPROVER_ensures(8 < VF_FREAD_GOT ==> ((uint8_t *)ptr)[8] == IN_tape[__CPROVER_old(G_pos) + 8])
__CPROVER_ensures(9 < VF_FREAD_GOT ==> ((uint8_t *)ptr)[9] == IN_tape[__CPROVER_old(G_pos) + 9])
__CPROVER_ensures(10 < VF_FREAD_GOT ==> ((uint8_t *)ptr)[10] == IN_tape[__CPROVER_old(G_pos) + 10])
__CPROVER_ensures(11 < VF_FREAD_GOT ==> ((uint8_t *)ptr)[11] == IN_tape[__CPROVER_old(G_pos) + 11])
__CPROVER_ensures(12 < VF_FREAD_GOT ==> ((uint8_t *)ptr)[12] == IN_tape[__CPROVER_old(G_pos) + 12])
__CPROVER_ensures(13 < VF_FREAD_GOT ==> ((uint8_t *)ptr)[13] == IN_tape[__CPROVER_old(G_pos) + 13])
__CPROVER_ensures(14 < VF_FREAD_GOT ==> ((uint8_t *)ptr)[14] == IN_tape[__CPROVER_old(G_pos) + 14])
__CPROVER_ensures(15 < VF_FREAD_GOT ==> ((uint8_t *)ptr)[15] == IN_tape[__CPROVER_old(G_pos) + 15])
__CPROVER_ensures(16 < VF_FREAD_GOT ==> ((uint8_t *)ptr)[16] == IN_tape[__CPROVER_old(G_pos) + 16])
__CPROVER_ensures(17 < VF_FREAD_GOT ==> ((uint8_t *)ptr)[17] == IN_tape[__CPROVER_old(G_pos) + 17])
__CPROVER_ensures(18 < VF_FREAD_GOT ==> ((uint8_t *)ptr)[18] == IN_tape[__CPROVER_old(G_pos) + 18])
__CPROVER_ensures(19 < VF_FREAD_GOT ==> ((uint8_t *)ptr)[19] == IN_tape[__CPROVER_old(G_pos) + 19])
__CPROVER_ensures(20 < VF_FREAD_GOT ==> ((uint8_t *)ptr)[20] == IN_tape[__CPROVER_old(G_pos) + 20])
__CPROVER_ensures(21 < VF_FREAD_GOT ==> ((uint8_t *)ptr)[21] == IN_tape[__CPROVER_old(G_pos) + 21])
__CPROVER_ensures(22 < VF_FREAD_GOT ==> ((uint8_t *)ptr)[22] == IN_tape[__CPROVER_old(G_pos) + 22])
__CPROVER_ensures(23 < VF_FREAD_GOT ==> ((uint8_t *)ptr)[23] == IN_tape[__CPROVER_old(G_pos) + 23])
__CPROVER_ensures(24 < VF_FREAD_GOT ==> ((uint8_t *)ptr)[24] == IN_tape[__CPROVER_old(G_pos) + 24])
__CPROVER_ensures(25 < VF_FREAD_GOT ==> ((uint8_t *)ptr)[25] == IN_tape[__CPROVER_old(G_pos) + 25])
__CPROVER_ensures(26 < VF_FREAD_GOT ==> ((uint8_t *)ptr)[26] == IN_tape[__CPROVER_old(G_pos) + 26])
__CPROVER_ensures(27 < VF_FREAD_GOT ==> ((uint8_t *)ptr)[27] == IN_tape[__CPROVER_old(G_pos) + 27])
__CPROVER_ensures(G_eof == (__CPROVER_old(G_eof) || VF_FREAD_GOT < VF_FREAD_TOTAL))
;

/* variant whose frame is the whole destination object (cheap to havoc for large buffers) */
size_t fread_whole(void *ptr, size_t size, size_t count, FILE *stream)
__CPROVER_requires(stream == G_file && __CPROVER_r_ok(stream, 1) && G_open == 1)
__CPROVER_requires(size > 0 && size <= 65536 && count <= 65536)
__CPROVER_requires(__CPROVER_w_ok(ptr, size * count))
__CPROVER_requires(G_pos <= G_len && G_len <= VF_TAPE_MAX)
__CPROVER_assigns(G_pos, G_eof, __CPROVER_object_whole(ptr))
__CPROVER_ensures(G_pos == __CPROVER_old(G_pos) + VF_FREAD_GOT)
__CPROVER_ensures(__CPROVER_return_value == VF_FREAD_GOT / size)
__CPROVER_ensures(GK < VF_FREAD_GOT ==> ((uint8_t *)ptr)[GK] == IN_tape[__CPROVER_old(G_pos) + GK])
__CPROVER_ensures(0 < VF_FREAD_GOT ==> ((uint8_t *)ptr)[0] == IN_tape[__CPROVER_old(G_pos) + 0])
__CPROVER_ensures(1 < VF_FREAD_GOT ==> ((uint8_t *)ptr)[1] == IN_tape[__CPROVER_old(G_pos) + 1])
__CPROVER_ensures(2 < VF_FREAD_GOT ==> ((uint8_t *)ptr)[2] == IN_tape[__CPROVER_old(G_pos) + 2])
__CPROVER_ensures(3 < VF_FREAD_GOT ==> ((uint8_t *)ptr)[3] == IN_tape[__CPROVER_old(G_pos) + 3])
__CPROVER_ensures(4 < VF_FREAD_GOT ==> ((uint8_t *)ptr)[4] == IN_tape[__CPROVER_old(G_pos) + 4])
__CPROVER_ensures(5 < VF_FREAD_GOT ==> ((uint8_t *)ptr)[5] == IN_tape[__CPROVER_old(G_pos) + 5])
__CPROVER_ensures(6 < VF_FREAD_GOT ==> ((uint8_t *)ptr)[6] == IN_tape[__CPROVER_old(G_pos) + 6])
__CPROVER_ensures(7 < VF_FREAD_GOT ==> ((uint8_t *)ptr)[7] == IN_tape[__CPROVER_old(G_pos) + 7])
__CPROVER_ensures(8 < VF_FREAD_GOT ==> ((uint8_t *)ptr)[8] == IN_tape[__CPROVER_old(G_pos) + 8])
__CPROVER_ensures(9 < VF_FREAD_GOT ==> ((uint8_t *)ptr)[9] == IN_tape[__CPROVER_old(G_pos) + 9])
__CPROVER_ensures(10 < VF_FREAD_GOT ==> ((uint8_t *)ptr)[10] == IN_tape[__CPROVER_old(G_pos) + 10])
__CPROVER_ensures(11 < VF_FREAD_GOT ==> ((uint8_t *)ptr)[11] == IN_tape[__CPROVER_old(G_pos) + 11])
__CPROVER_ensures(12 < VF_FREAD_GOT ==> ((uint8_t *)ptr)[12] == IN_tape[__CPROVER_old(G_pos) + 12])
__CPROVER_ensures(13 < VF_FREAD_GOT ==> ((uint8_t *)ptr)[13] == IN_tape[__CPROVER_old(G_pos) + 13])
__CPROVER_ensures(14 < VF_FREAD_GOT ==> ((uint8_t *)ptr)[14] == IN_tape[__CPROVER_old(G_pos) + 14])
__CPROVER_ensures(15 < VF_FREAD_GOT ==> ((uint8_t *)ptr)[15] == IN_tape[__CPROVER_old(G_pos) + 15])
__CPROVER_ensures(16 < VF_FREAD_GOT ==> ((uint8_t *)ptr)[16] == IN_tape[__CPROVER_old(G_pos) + 16])
__CPROVER_ensures(17 < VF_FREAD_GOT ==> ((uint8_t *)ptr)[17] == IN_tape[__CPROVER_old(G_pos) + 17])
__CPROVER_ensures(18 < VF_FREAD_GOT ==> ((uint8_t *)ptr)[18] == IN_tape[__CPROVER_old(G_pos) + 18])
__CPROVER_ensures(19 < VF_FREAD_GOT ==> ((uint8_t *)ptr)[19] == IN_tape[__CPROVER_old(G_pos) + 19])
__CPROVER_ensures(20 < VF_FREAD_GOT ==> ((uint8_t *)ptr)[20] == IN_tape[__CPROVER_old(G_pos) + 20])
__CPROVER_ensures(21 < VF_FREAD_GOT ==> ((uint8_t *)ptr)[21] == IN_tape[__CPROVER_old(G_pos) + 21])
__CPROVER_ensures(22 < VF_FREAD_GOT ==> ((uint8_t *)ptr)[22] == IN_tape[__CPROVER_old(G_pos) + 22])
__CPROVER_ensures(23 < VF_FREAD_GOT ==> ((uint8_t *)ptr)[23] == IN_tape[__CPROVER_old(G_pos) + 23])
__CPROVER_ensures(24 < VF_FREAD_GOT ==> ((uint8_t *)ptr)[24] == IN_tape[__CPROVER_old(G_pos) + 24])
__CPROVER_ensures(25 < VF_FREAD_GOT ==> ((uint8_t *)ptr)[25] == IN_tape[__CPROVER_old(G_pos) + 25])
__CPROVER_ensures(26 < VF_FREAD_GOT ==> ((uint8_t *)ptr)[26] == IN_tape[__CPROVER_old(G_pos) + 26])
__CPROVER_ensures(27 < VF_FREAD_GOT ==> ((uint8_t *)ptr)[27] == IN_tape[__CPROVER_old(G_pos) + 27])
__CPROVER_ensures(G_eof == (__CPROVER_old(G_eof) || VF_FREAD_GOT < VF_FREAD_TOTAL))
;


/* variant for large reads into a large buffer: the frame is the whole object, which CBMC havocs cheaply; a symbolic-length slice of a 64 KiB buffer is not */
size_t fread_from(void *ptr, size_t size, size_t count, FILE *stream)
__CPROVER_requires(stream == G_file && __CPROVER_r_ok(stream, 1) && G_open == 1)
__CPROVER_requires(size > 0 && size <= 65536 && count <= 65536)
__CPROVER_requires(__CPROVER_w_ok(ptr, size * count) && __CPROVER_r_ok((uint8_t *)ptr - 4, 4))
__CPROVER_requires(G_pos <= G_len && G_len <= VF_TAPE_MAX)
__CPROVER_assigns(G_pos, G_eof, __CPROVER_object_whole(ptr))
__CPROVER_ensures(G_pos == __CPROVER_old(G_pos) + VF_FREAD_GOT)
/* the frame is the whole object (cheap to havoc); what a reader of records relies on is restated: the
 * four bytes in front of ptr (the record header) are untouched */
__CPROVER_ensures(((uint8_t *)ptr)[-1] == __CPROVER_old(((uint8_t *)ptr)[-1]) && ((uint8_t *)ptr)[-2] == __CPROVER_old(((uint8_t *)ptr)[-2]))
__CPROVER_ensures(((uint8_t *)ptr)[-3] == __CPROVER_old(((uint8_t *)ptr)[-3]) && ((uint8_t *)ptr)[-4] == __CPROVER_old(((uint8_t *)ptr)[-4]))
__CPROVER_ensures(__CPROVER_return_value == VF_FREAD_GOT / size)
__CPROVER_ensures(GK < VF_FREAD_GOT ==> ((uint8_t *)ptr)[GK] == IN_tape[__CPROVER_old(G_pos) + GK])
__CPROVER_ensures(0 < VF_FREAD_GOT ==> ((uint8_t *)ptr)[0] == IN_tape[__CPROVER_old(G_pos) + 0])
__CPROVER_ensures(1 < VF_FREAD_GOT ==> ((uint8_t *)ptr)[1] == IN_tape[__CPROVER_old(G_pos) + 1])
__CPROVER_ensures(2 < VF_FREAD_GOT ==> ((uint8_t *)ptr)[2] == IN_tape[__CPROVER_old(G_pos) + 2])
__CPROVER_ensures(3 < VF_FREAD_GOT ==> ((uint8_t *)ptr)[3] == IN_tape[__CPROVER_old(G_pos) + 3])
__CPROVER_ensures(4 < VF_FREAD_GOT ==> ((uint8_t *)ptr)[4] == IN_tape[__CPROVER_old(G_pos) + 4])
__CPROVER_ensures(5 < VF_FREAD_GOT ==> ((uint8_t *)ptr)[5] == IN_tape[__CPROVER_old(G_pos) + 5])
__CPROVER_ensures(6 < VF_FREAD_GOT ==> ((uint8_t *)ptr)[6] == IN_tape[__CPROVER_old(G_pos) + 6])
__CPROVER_ensures(7 < VF_FREAD_GOT ==> ((uint8_t *)ptr)[7] == IN_tape[__CPROVER_old(G_pos) + 7])
__CPROVER_ensures(G_eof == (__CPROVER_old(G_eof) || VF_FREAD_GOT < VF_FREAD_TOTAL))
;

int fseek(FILE *stream, long off, int whence)
__CPROVER_requires(stream == G_file && __CPROVER_r_ok(stream, 1) && G_open == 1)
__CPROVER_requires(whence == SEEK_SET || whence == SEEK_CUR || whence == SEEK_END)
__CPROVER_requires(off >= -0x100000 && off <= 0x100000)
__CPROVER_assigns(G_pos, G_eof)
/* target = base + off; a negative target fails (-1) and leaves the position alone; seeking past the
 * end of a read-only regular file is allowed by POSIX, but no gdstk caller does it */
__CPROVER_ensures(VF_SEEK_TARGET >= 0 ==> (G_pos == (uint64_t)VF_SEEK_TARGET && __CPROVER_return_value == 0 && G_eof == false))
__CPROVER_ensures(VF_SEEK_TARGET < 0 ==> (G_pos == __CPROVER_old(G_pos) && __CPROVER_return_value == -1))
;

int fputs(const char *s, FILE *stream)
__CPROVER_requires(1)
__CPROVER_assigns()
__CPROVER_ensures(1)
;

size_t fwrite(const void *ptr, size_t size, size_t count, FILE *stream)
__CPROVER_requires(stream == W_file && __CPROVER_r_ok(stream, 1))
__CPROVER_requires(size > 0 && size * count <= VF_WTAPE_MAX - W_pos)
__CPROVER_requires(__CPROVER_r_ok(ptr, size * count))
__CPROVER_assigns(W_pos, __CPROVER_object_upto(W_tape + W_pos, size * count))
__CPROVER_ensures(W_pos == __CPROVER_old(W_pos) + size * count)
__CPROVER_ensures(__CPROVER_return_value == count)
__CPROVER_ensures(GK2 < size * count ==> W_tape[__CPROVER_old(W_pos) + GK2] == ((const uint8_t *)ptr)[GK2])
__CPROVER_ensures(0 < size * count ==> W_tape[__CPROVER_old(W_pos) + 0] == ((const uint8_t *)ptr)[0])
__CPROVER_ensures(1 < size * count ==> W_tape[__CPROVER_old(W_pos) + 1] == ((const uint8_t *)ptr)[1])
__CPROVER_ensures(2 < size * count ==> W_tape[__CPROVER_old(W_pos) + 2] == ((const uint8_t *)ptr)[2])
__CPROVER_ensures(3 < size * count ==> W_tape[__CPROVER_old(W_pos) + 3] == ((const uint8_t *)ptr)[3])
__CPROVER_ensures(4 < size * count ==> W_tape[__CPROVER_old(W_pos) + 4] == ((const uint8_t *)ptr)[4])
__CPROVER_ensures(5 < size * count ==> W_tape[__CPROVER_old(W_pos) + 5] == ((const uint8_t *)ptr)[5])
__CPROVER_ensures(6 < size * count ==> W_tape[__CPROVER_old(W_pos) + 6] == ((const uint8_t *)ptr)[6])
__CPROVER_ensures(7 < size * count ==> W_tape[__CPROVER_old(W_pos) + 7] == ((const uint8_t *)ptr)[7])
__CPROVER_ensures(8 < size * count ==> W_tape[__CPROVER_old(W_pos) + 8] == ((const uint8_t *)ptr)[8])
__CPROVER_ensures(9 < size * count ==> W_tape[__CPROVER_old(W_pos) + 9] == ((const uint8_t *)ptr)[9])
__CPROVER_ensures(10 < size * count ==> W_tape[__CPROVER_old(W_pos) + 10] == ((const uint8_t *)ptr)[10])
;

int putc(int c, FILE *stream)
__CPROVER_requires(stream == W_file && __CPROVER_r_ok(stream, 1))
__CPROVER_requires(W_pos < VF_WTAPE_MAX)
__CPROVER_assigns(W_pos, W_tape[W_pos])
__CPROVER_ensures(W_pos == __CPROVER_old(W_pos) + 1 && W_tape[__CPROVER_old(W_pos)] == (c & 0xff))
__CPROVER_ensures(__CPROVER_return_value == (c & 0xff))
;

/* ---- opening and closing: one input file; G_open counts open handles (0 or 1) ------------------ */
FILE *fopen(const char *filename, const char *mode)
__CPROVER_requires(G_open == 0)
__CPROVER_assigns(G_open, G_pos, G_eof)
__CPROVER_ensures(__CPROVER_return_value == NULL || (__CPROVER_return_value == G_file && G_open == 1 && G_pos == 0 && G_eof == false))
__CPROVER_ensures(__CPROVER_return_value == NULL ==> G_open == 0)
__CPROVER_ensures(IN_openfail == 0 ==> __CPROVER_return_value != NULL)
;

int fclose(FILE *stream)
/* closing a handle that is not open (double close, close of garbage) violates this requires */
__CPROVER_requires(stream == G_file && G_open == 1)
__CPROVER_assigns(G_open)
__CPROVER_ensures(G_open == 0 && __CPROVER_return_value == 0)
;

int feof(FILE *stream)
__CPROVER_requires(stream == G_file && G_open == 1)
__CPROVER_assigns()
__CPROVER_ensures((__CPROVER_return_value != 0) == G_eof)
;

int ferror(FILE *stream)
__CPROVER_requires(stream == G_file && G_open == 1)
__CPROVER_assigns()
__CPROVER_ensures(__CPROVER_return_value == 0)
;

long ftell(FILE *stream)
__CPROVER_requires(stream == G_file && G_open == 1)
__CPROVER_assigns()
__CPROVER_ensures(__CPROVER_return_value == (long)G_pos)
;

/* memcpy for large symbolic lengths (ASSUMED frame: the destination object; content unspecified) */
void *memcpy_any(void *dst, const void *src, size_t n)
__CPROVER_requires(__CPROVER_w_ok(dst, n) && __CPROVER_r_ok(src, n))
__CPROVER_assigns(__CPROVER_object_whole(dst))
__CPROVER_ensures(__CPROVER_return_value == dst)
;

/* zlib's crc32: an uninterpreted value (ASSUMED; signatures are outside what C18 proves) */
unsigned long crc32(unsigned long crc, const unsigned char *buf, unsigned int len)
__CPROVER_requires(1)
__CPROVER_assigns()
__CPROVER_ensures(1)
;
#endif
