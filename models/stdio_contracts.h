/* stdio_contracts.h -- ASSUMED contracts for the stdio calls gdstk makes (CBMC side only).
 * They are never enforced (libc is outside the verified code); every proof that uses one lists
 * it under "assumptions".  They describe a regular file: bytes come back as they are on the
 * tape, a read is short exactly when the file ends; a write appends.
 * Content clauses: one explicit clause per byte for the first few bytes (what a caller that
 * decodes small fixed-width items needs) plus one ghost-index clause (GK / GK2) for the rest. */
#ifndef VF_STDIO_CONTRACTS_H
#define VF_STDIO_CONTRACTS_H

#define VF_FREAD_TOTAL (size * count)
#define VF_FREAD_GOT ((VF_FREAD_TOTAL) <= (__CPROVER_old(G_len) - __CPROVER_old(G_pos)) ? (VF_FREAD_TOTAL) : (__CPROVER_old(G_len) - __CPROVER_old(G_pos)))

size_t fread(void *ptr, size_t size, size_t count, FILE *stream)
__CPROVER_requires(stream == G_file && __CPROVER_r_ok(stream, 1))
__CPROVER_requires(size > 0 && size <= 65536 && count <= 65536)
__CPROVER_requires(__CPROVER_w_ok(ptr, size * count))
__CPROVER_requires(G_pos <= G_len && G_len <= VF_TAPE_MAX)
__CPROVER_assigns(G_pos, G_eof, __CPROVER_object_upto(ptr, size * count))
__CPROVER_ensures(G_pos == __CPROVER_old(G_pos) + VF_FREAD_GOT)
__CPROVER_ensures(__CPROVER_return_value == VF_FREAD_GOT / size)
__CPROVER_ensures(GK < VF_FREAD_GOT ==> ((uint8_t *)ptr)[GK] == IN_tape[__CPROVER_old(G_pos) + GK])
__CPROVER_ensures(0 < VF_FREAD_GOT ==> ((uint8_t *)ptr)[0] == IN_tape[__CPROVER_old(G_pos) + 0])
__CPROVER_ensures(1 < VF_FREAD_GOT ==> ((uint8_t *)ptr)[1] == IN_tape[__CPROVER_old(G_pos) + 1])
__CPROVER_ensures(2 < VF_FREAD_GOT ==> ((uint8_t *)ptr)[2] == IN_tape[__CPROVER_old(G_pos) + 2])
__CPROVER_ensures(3 < VF_FREAD_GOT ==> ((uint8_t *)ptr)[3] == IN_tape[__CPROVER_old(G_pos) + 3])
__CPROVER_ensures(4 < VF_FREAD_GOT ==> ((uint8_t *)ptr)[4] == IN_tape[__CPROVER_old(G_pos) + 4])
__CPROVER_ensures(5 < VF_FREAD_GOT ==> ((uint8_t *)ptr)[5] == IN_tape[__CPROVER_old(G_pos) + 5])
__CPROVER_ensures(6 < VF_FREAD_GOT ==> ((uint8_t *)ptr)[6] == IN_tape[__CPROVER_old(G_pos) + 6])
__CPROVER_ensures(7 < VF_FREAD_GOT ==> ((uint8_t *)ptr)[7] == IN_tape[__CPROVER_old(G_pos) + 7])
__CPROVER_ensures(G_eof == (__CPROVER_old(G_eof) || VF_FREAD_GOT < VF_FREAD_TOTAL))
;

int fseek(FILE *stream, long off, int whence)
__CPROVER_requires(stream == G_file && __CPROVER_r_ok(stream, 1))
__CPROVER_requires(whence == SEEK_CUR && off == -1)
__CPROVER_assigns(G_pos, G_eof)
__CPROVER_ensures(__CPROVER_old(G_pos) > 0 ==> (G_pos == __CPROVER_old(G_pos) - 1 && __CPROVER_return_value == 0))
__CPROVER_ensures(__CPROVER_old(G_pos) == 0 ==> (G_pos == 0 && __CPROVER_return_value == -1))
__CPROVER_ensures(G_eof == false)
;

int fputs(const char *s, FILE *stream)
__CPROVER_requires(stream != NULL)
__CPROVER_assigns()
;

size_t fwrite(const void *ptr, size_t size, size_t count, FILE *stream)
__CPROVER_requires(stream == W_file && __CPROVER_r_ok(stream, 1))
__CPROVER_requires(size > 0 && size * count <= VF_WTAPE_MAX - W_pos)
__CPROVER_requires(__CPROVER_r_ok(ptr, size * count))
__CPROVER_assigns(W_pos, __CPROVER_object_upto(W_tape + W_pos, size * count))
__CPROVER_ensures(W_pos == __CPROVER_old(W_pos) + size * count)
__CPROVER_ensures(__CPROVER_return_value == count)
__CPROVER_ensures(GK2 < size * count ==> W_tape[__CPROVER_old(W_pos) + GK2] == ((const uint8_t *)ptr)[GK2])
__CPROVER_ensures(0 < size * count ==> W_tape[__CPROVER_old(W_pos) + 0] == ((const uint8_t *)ptr)[0])
__CPROVER_ensures(1 < size * count ==> W_tape[__CPROVER_old(W_pos) + 1] == ((const uint8_t *)ptr)[1])
__CPROVER_ensures(2 < size * count ==> W_tape[__CPROVER_old(W_pos) + 2] == ((const uint8_t *)ptr)[2])
__CPROVER_ensures(3 < size * count ==> W_tape[__CPROVER_old(W_pos) + 3] == ((const uint8_t *)ptr)[3])
__CPROVER_ensures(4 < size * count ==> W_tape[__CPROVER_old(W_pos) + 4] == ((const uint8_t *)ptr)[4])
__CPROVER_ensures(5 < size * count ==> W_tape[__CPROVER_old(W_pos) + 5] == ((const uint8_t *)ptr)[5])
__CPROVER_ensures(6 < size * count ==> W_tape[__CPROVER_old(W_pos) + 6] == ((const uint8_t *)ptr)[6])
__CPROVER_ensures(7 < size * count ==> W_tape[__CPROVER_old(W_pos) + 7] == ((const uint8_t *)ptr)[7])
__CPROVER_ensures(8 < size * count ==> W_tape[__CPROVER_old(W_pos) + 8] == ((const uint8_t *)ptr)[8])
__CPROVER_ensures(9 < size * count ==> W_tape[__CPROVER_old(W_pos) + 9] == ((const uint8_t *)ptr)[9])
__CPROVER_ensures(10 < size * count ==> W_tape[__CPROVER_old(W_pos) + 10] == ((const uint8_t *)ptr)[10])
;

int putc(int c, FILE *stream)
__CPROVER_requires(stream == W_file && __CPROVER_r_ok(stream, 1))
__CPROVER_requires(W_pos < VF_WTAPE_MAX)
__CPROVER_assigns(W_pos, W_tape[W_pos])
__CPROVER_ensures(W_pos == __CPROVER_old(W_pos) + 1 && W_tape[__CPROVER_old(W_pos)] == (c & 0xff))
__CPROVER_ensures(__CPROVER_return_value == (c & 0xff))
;
#endif
