#ifndef VF_APPLY_REP_SPEC_H
#define VF_APPLY_REP_SPEC_H
uint64_t IN_noff;
double IN_offx[3], IN_offy[3];
Property *G_propcopy;
#endif
