#ifndef VF_EXTREMA_IN_H
#define VF_EXTREMA_IN_H
uint64_t IN_next;            /* number of extreme offsets the (modelled) get_extrema hands out */
double IN_ex[4], IN_ey[4];
#endif
