/* fpath_spec.h -- ghosts for the FlexPath transform contracts */
#ifndef VF_FPATH_SPEC_H
#define VF_FPATH_SPEC_H
Vec2 G_w0;    /* entry value of (half width, offset) entry GK of element GK2 */
#ifndef VF_RPATH_SPEC_H
static inline double vf_fabs(double x) { union { double d; uint64_t u; } p; p.d = x; p.u &= 0x7FFFFFFFFFFFFFFFUL; return p.d; }
#endif
#endif
