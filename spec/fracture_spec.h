#ifndef VF_FRACTURE_SPEC_H
#define VF_FRACTURE_SPEC_H
Property *G_propcopy;   /* what the (assumed) properties_copy returns */
#endif
