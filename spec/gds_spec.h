#ifndef VF_GDS_SPEC_H
#define VF_GDS_SPEC_H
uint16_t G_dummy16; uint32_t G_dummy32; uint64_t G_dummy64;
/* element i of a buffer of n elements, or a dummy when i is out of range: keeps history
 * expressions (__CPROVER_old) valid for every n */
#define VF_AT(b, i, n, dummy) (*((uint64_t)(i) < (uint64_t)(n) ? (b) + (i) : &(dummy)))
static inline uint64_t spec_dbits(double d) { union { double d; uint64_t u; } p; p.d = d; return p.u; }
uint64_t G_rec;   /* ghost: start position of the record the reader loop is looking at */
#define SPEC_RL(p) ((uint64_t)IN_tape[p] * 256 + IN_tape[(p) + 1])
#define SPEC_BE64(p) (((uint64_t)IN_tape[p] << 56) | ((uint64_t)IN_tape[(p) + 1] << 48) | ((uint64_t)IN_tape[(p) + 2] << 40) | \
                      ((uint64_t)IN_tape[(p) + 3] << 32) | ((uint64_t)IN_tape[(p) + 4] << 24) | ((uint64_t)IN_tape[(p) + 5] << 16) | \
                      ((uint64_t)IN_tape[(p) + 6] << 8) | (uint64_t)IN_tape[(p) + 7])
#ifdef VF_CBMC
double __CPROVER_uninterpreted_gds_real(uint64_t);
#define vf_gds_real(r) __CPROVER_uninterpreted_gds_real(r)
#else
#define vf_gds_real(r) gdstk::gdsii_real_to_double(r)
#endif
#endif
