#ifndef VF_GDSII_REAL_SPEC_H
#define VF_GDSII_REAL_SPEC_H
static inline uint64_t spec_bits(double d) { union { double d; uint64_t u; } p; p.d = d; return p.u; }
#define DEQ(a, b) (spec_bits(a) == spec_bits(b))
#ifdef VF_CBMC
uint64_t __CPROVER_uninterpreted_exp2(uint64_t);
static inline double vf_exp2(double x) { union { double d; uint64_t u; } p, q; p.d = x; q.u = __CPROVER_uninterpreted_exp2(p.u); return q.d; }
#else
#define vf_exp2(x) exp2(x)
#endif
/* written from the format definition, field by field */
static inline double spec_gds_decode(uint64_t r) {
    uint64_t sign = r >> 63;
    int64_t e = (int64_t)((r >> 56) & 0x7f);          /* excess-64, base 16 */
    uint64_t m = r & 0x00FFFFFFFFFFFFFFULL;            /* 56-bit fraction */
    double frac = VF_FDIV((double)m, 72057594037927936.0);   /* m / 2^56 */
    double v = VF_FMUL(frac, vf_exp2((double)(4 * e - 256)));
    return sign ? -v : v;
}
#endif
