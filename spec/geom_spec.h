/* geom_spec.h -- the documented affine maps, written from the property statement:
 * transform = magnify, then reflect across x, then rotate, then translate. */
#ifndef VF_GEOM_SPEC_H
#define VF_GEOM_SPEC_H
#ifdef VF_CBMC
uint64_t __CPROVER_uninterpreted_cos(uint64_t);
uint64_t __CPROVER_uninterpreted_sin(uint64_t);
static inline double vf_cos(double a) { union { double d; uint64_t u; } p, q; p.d = a; q.u = __CPROVER_uninterpreted_cos(p.u); return q.d; }
static inline double vf_sin(double a) { union { double d; uint64_t u; } p, q; p.d = a; q.u = __CPROVER_uninterpreted_sin(p.u); return q.d; }
#else
#define vf_cos(a) cos(a)
#define vf_sin(a) sin(a)
#endif
Vec2 *G_pv;          /* entry value of the vertex pointer a loop advances */
Vec2 G_v0;           /* entry value of vertex GK */
/* bit-exact equality of two double LVALUES without a call (loop invariants may not call) */
#define BEQ(a, b) (*(const uint64_t *)&(a) == *(const uint64_t *)&(b))
static inline uint64_t spec_bits(double d) { union { double d; uint64_t u; } p; p.d = d; return p.u; }
/* bit-exact equality of two double values (ensures clauses) */
#define DEQ(a, b) (spec_bits(a) == spec_bits(b))
double G_ex, G_ey;   /* image of vertex GK under the map, computed once at entry (invariants may not call) */
uint64_t GW_minx, GW_maxx, GW_miny, GW_maxy;   /* ghost witnesses: index of the vertex attaining each side */
double *G_pc;          /* entry value of the coordinate pointer a loop advances */
double G_a, G_b, G_c, G_d;   /* entry values of lattice vector components / of coordinate GK */
uint64_t GI, GJ;                /* ghost lattice indices: arbitrary, never assigned */
uint64_t G_t0;               /* entry value of a kind tag */
/* a finite number */
#define FIN(x) ((x) >= -DBL_MAX && (x) <= DBL_MAX)
double G_ca, G_sa;   /* cos / sin of the angle argument (uninterpreted), taken at entry */
/* scale about a centre: (p - c) * s + c */
#define S_AX(p, c, s) VF_FADD(VF_FMUL(VF_FSUB(p, c), s), c)
/* rotate (qx, qy) by the angle with cosine ca and sine sa, then translate: one canonical order */
#define R_X(qx, qy, ca, sa, o) VF_FADD(VF_FSUB(VF_FMUL(qx, ca), VF_FMUL(qy, sa)), o)
#define R_Y(qx, qy, ca, sa, o) VF_FADD(VF_FADD(VF_FMUL(qx, sa), VF_FMUL(qy, ca)), o)
/* reflect across the x axis */
#define T_REFL(qy, xr) ((xr) ? -(qy) : (qy))
#endif
