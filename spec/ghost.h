/* ghost.h -- ghost variables shared by contracts (never read by real code). */
#ifndef VF_GHOST_H
#define VF_GHOST_H
#ifndef VF_TAPE_H
uint64_t GK;       /* ghost index: arbitrary and never assigned = "for all k" */
uint64_t GK2;
#endif
uint64_t G_n0;     /* entry value of a count parameter that the loop decrements */
uint16_t *G_b16;   /* entry values of buffer parameters that the loop advances */
uint32_t *G_b32;
uint64_t *G_b64;
uint16_t G_old16; uint32_t G_old32; uint64_t G_old64;   /* entry value of element GK */
uint64_t G_q0, G_k0, G_c0;   /* abstract-view snapshots taken by ghost entry code */
#endif
