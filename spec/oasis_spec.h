/* oasis_spec.h -- spec functions for the OASIS number encodings, written from the format
 * definition (SEMI P39, sections 7.2-7.5), NOT from gdstk's code.  Pure C, loop bounds are the
 * operand width (<= 10 groups of 7 bits).  Compiled into the CBMC harness (called from ensures
 * clauses) and, unchanged, into the native replay driver.
 *
 *   unsigned-integer : little-endian base-128, bit 7 of every byte but the last is set
 *   signed-integer   : same, bit 0 of the first byte is the sign (1 = negative), magnitude above
 *   1-delta = signed-integer; 2-delta: low 2 bits direction E,N,W,S; 3-delta: low 3 bits
 *   direction E,N,W,S,NE,NW,SW,SE; g-delta: bit 0 = 0 -> 3-delta shifted by one more bit,
 *   bit 0 = 1 -> two integers: x with bit 1 = sign (west), then y as signed-integer
 *   real: type byte 0..7 then: +n, -n, +1/n, -1/n, +a/b, -a/b, float32 LE, float64 LE
 */
#ifndef VF_OASIS_SPEC_H
#define VF_OASIS_SPEC_H

/* length code of the byte group starting at t[pos]:
 *   1..10 : number of bytes, the last one has bit 7 clear
 *   0     : the tape ends before a terminating byte is seen (truncated)
 *   11    : ten bytes with bit 7 set (longer than any 64-bit value needs) */
static inline uint8_t spec_grp_len(const uint8_t *t, uint64_t pos, uint64_t len) {
    for (uint8_t k = 0; k < 10; k++) {
        if (pos + k >= len) return 0;
        if ((t[pos + k] & 0x80) == 0) return (uint8_t)(k + 1);
    }
    return 11;
}

/* value of an n-byte group (1 <= n <= 10) read as unsigned-integer, modulo 2^64 */
static inline uint64_t spec_uint_val(const uint8_t *t, uint64_t pos, uint8_t n) {
    uint64_t v = 0;
    for (uint8_t k = 0; k < 10; k++) {
        if (k < n) {
            uint64_t payload = (uint64_t)(t[pos + k] & 0x7f);
            if (k < 9) v |= payload << (7 * k);
            else v |= (payload & 1) << 63;
        }
    }
    return v;
}

/* does an n-byte group hold a value >= 2^64 ? */
static inline bool spec_uint_ovf(const uint8_t *t, uint64_t pos, uint8_t n) {
    return n == 10 && (t[pos + 9] & 0x7f) > 1;
}

/* minimal encoded length of v as unsigned-integer */
static inline uint8_t spec_uint_minlen(uint64_t v) {
    uint8_t n = 1;
    for (uint8_t k = 0; k < 9; k++) {
        v >>= 7;
        if (v > 0) n++;
    }
    return n;
}

/* integers with `skip` low flag bits in the first byte (skip = 1..4): flag bits */
static inline uint8_t spec_int_bits(const uint8_t *t, uint64_t pos, uint8_t skip) {
    return (uint8_t)(t[pos] & ((1u << skip) - 1u));
}

/* magnitude of an n-byte group with `skip` flag bits, modulo 2^64 */
static inline uint64_t spec_int_mag(const uint8_t *t, uint64_t pos, uint8_t n, uint8_t skip) {
    uint64_t v = ((uint64_t)(t[pos] & 0x7f)) >> skip;
    for (uint8_t k = 1; k < 10; k++) {
        if (k < n) {
            uint64_t payload = (uint64_t)(t[pos + k] & 0x7f);
            uint8_t sh = (uint8_t)(7 * k - skip);
            if (sh < 64) v |= payload << sh;
        }
    }
    return v;
}

/* does the magnitude need more than 63 bits (so that it cannot be a signed 64-bit magnitude)? */
static inline bool spec_int_ovf(const uint8_t *t, uint64_t pos, uint8_t n, uint8_t skip) {
    if (n < 10) return false;
    /* byte 9 contributes at bit position 63 - skip: only `skip` payload bits fit below bit 63 */
    return ((t[pos + 9] & 0x7f) >> skip) != 0;
}

static inline uint8_t spec_int_minlen(uint64_t mag, uint8_t skip) {
    uint8_t n = 1;
    mag >>= (7 - skip);
    for (uint8_t k = 0; k < 9; k++) {
        if (mag > 0) n++;
        mag >>= 7;
    }
    return n;
}

/* directions: E N W S NE NW SW SE -> unit steps */
static inline int64_t spec_dir_x(uint8_t d, int64_t m) {
    return (d == 0 || d == 4 || d == 7) ? m : (d == 2 || d == 5 || d == 6) ? -m : 0;
}
static inline int64_t spec_dir_y(uint8_t d, int64_t m) {
    return (d == 1 || d == 4 || d == 5) ? m : (d == 3 || d == 6 || d == 7) ? -m : 0;
}

/* IEEE bit patterns <-> values without type punning through pointers */
static inline double spec_double_from_le(const uint8_t *t, uint64_t pos) {
    uint64_t b = 0;
    for (uint8_t k = 0; k < 8; k++) b |= ((uint64_t)t[pos + k]) << (8 * k);
    union { uint64_t u; double d; } pun;
    pun.u = b;
    return pun.d;
}
static inline float spec_float_from_le(const uint8_t *t, uint64_t pos) {
    uint32_t b = 0;
    for (uint8_t k = 0; k < 4; k++) b |= ((uint32_t)t[pos + k]) << (8 * k);
    union { uint32_t u; float d; } pun;
    pun.u = b;
    return pun.d;
}

/* ---- deltas ------------------------------------------------------------------------------- */
/* 1-delta (skip 1, bit 0 = sign), 2-delta (skip 2, direction E N W S), 3-delta (skip 3, eight
 * directions): length in bytes, 0 if truncated / longer than 10 bytes / magnitude above 63 bits */
static inline uint8_t spec_delta_len(const uint8_t *t, uint64_t pos, uint64_t len, uint8_t skip) {
    uint8_t n = spec_grp_len(t, pos, len);
    if (n == 0 || n > 10 || spec_int_ovf(t, pos, n, skip)) return 0;
    return n;
}
static inline int64_t spec_delta_x(const uint8_t *t, uint64_t pos, uint64_t len, uint8_t skip) {
    uint8_t n = spec_grp_len(t, pos, len);
    int64_t m = (int64_t)spec_int_mag(t, pos, n, skip);
    uint8_t b = spec_int_bits(t, pos, skip);
    if (skip == 1) return (b & 1) ? -m : m;
    return spec_dir_x(b, m);
}
static inline int64_t spec_delta_y(const uint8_t *t, uint64_t pos, uint64_t len, uint8_t skip) {
    uint8_t n = spec_grp_len(t, pos, len);
    int64_t m = (int64_t)spec_int_mag(t, pos, n, skip);
    uint8_t b = spec_int_bits(t, pos, skip);
    if (skip == 1) return 0;
    return spec_dir_y(b, m);
}
/* g-delta */
static inline uint8_t spec_gdelta_len(const uint8_t *t, uint64_t pos, uint64_t len) {
    if (pos >= len) return 0;
    if ((t[pos] & 1) == 0) return spec_delta_len(t, pos, len, 4);
    uint8_t n1 = spec_delta_len(t, pos, len, 2);
    if (n1 == 0) return 0;
    uint8_t n2 = spec_delta_len(t, pos + n1, len, 1);
    if (n2 == 0) return 0;
    return (uint8_t)(n1 + n2);
}
static inline int64_t spec_gdelta_x(const uint8_t *t, uint64_t pos, uint64_t len) {
    uint8_t n = spec_grp_len(t, pos, len);
    if ((t[pos] & 1) == 0)
        return spec_dir_x((uint8_t)(spec_int_bits(t, pos, 4) >> 1), (int64_t)spec_int_mag(t, pos, n, 4));
    int64_t m = (int64_t)spec_int_mag(t, pos, n, 2);
    return (t[pos] & 2) ? -m : m;
}
static inline int64_t spec_gdelta_y(const uint8_t *t, uint64_t pos, uint64_t len) {
    uint8_t n = spec_grp_len(t, pos, len);
    if ((t[pos] & 1) == 0)
        return spec_dir_y((uint8_t)(spec_int_bits(t, pos, 4) >> 1), (int64_t)spec_int_mag(t, pos, n, 4));
    return spec_delta_x(t, pos + n, len, 1);
}

/* ---- reals: body (after the type byte) and whole (type byte at t[pos]) ----------------------- */
/* body length in bytes for type ty = 0..7; 0 if truncated or malformed */
static inline uint8_t spec_realbody_len(uint8_t ty, const uint8_t *t, uint64_t pos, uint64_t len) {
    if (ty <= 3) {
        uint8_t n = spec_grp_len(t, pos, len);
        if (n == 0 || n > 10 || spec_uint_ovf(t, pos, n)) return 0;
        return n;
    }
    if (ty <= 5) {
        uint8_t n = spec_grp_len(t, pos, len);
        if (n == 0 || n > 10 || spec_uint_ovf(t, pos, n)) return 0;
        uint8_t m = spec_grp_len(t, pos + n, len);
        if (m == 0 || m > 10 || spec_uint_ovf(t, pos + n, m)) return 0;
        return (uint8_t)(n + m);
    }
    if (ty == 6) return pos + 4 <= len ? 4 : 0;
    if (ty == 7) return pos + 8 <= len ? 8 : 0;
    return 0;
}
static inline double spec_realbody_val(uint8_t ty, const uint8_t *t, uint64_t pos, uint64_t len) {
    if (ty <= 5) {
        uint8_t n = spec_grp_len(t, pos, len);
        uint64_t a = spec_uint_val(t, pos, n);
        if (ty == 0) return (double)a;
        if (ty == 1) return -(double)a;
        if (ty == 2) return VF_FDIV(1.0, (double)a);
        if (ty == 3) return VF_FDIV(-1.0, (double)a);
        uint8_t m = spec_grp_len(t, pos + n, len);
        uint64_t b = spec_uint_val(t, pos + n, m);
        if (ty == 4) return VF_FDIV((double)a, (double)b);
        return VF_FDIV(-(double)a, (double)b);
    }
    if (ty == 6) return (double)spec_float_from_le(t, pos);
    return spec_double_from_le(t, pos);
}
static inline uint8_t spec_real_len(const uint8_t *t, uint64_t pos, uint64_t len) {
    if (pos >= len || t[pos] > 7) return 0;
    uint8_t b = spec_realbody_len(t[pos], t, pos + 1, len);
    return b ? (uint8_t)(b + 1) : 0;
}
static inline double spec_real_val(const uint8_t *t, uint64_t pos, uint64_t len) {
    return spec_realbody_val(t[pos], t, pos + 1, len);
}

static inline bool spec_same_double(double a, double b) {
    /* equal as reals; NaN equals NaN; +0 and -0 are the same real */
    return (a != a && b != b) || a == b;
}
static inline bool spec_finite(double a) { return a == a && a - a == 0.0; }

/* expression macros (loop invariants may not contain calls) */
#define SPEC_BSWAP16(b) ((uint16_t)((((uint32_t)(b) & 0xffu) << 8) | (((uint32_t)(b) >> 8) & 0xffu)))
#define SPEC_BSWAP32(b) ((uint32_t)((((uint32_t)(b) & 0xffu) << 24) | (((uint32_t)(b) & 0xff00u) << 8) | (((uint32_t)(b) >> 8) & 0xff00u) | ((uint32_t)(b) >> 24)))
#define SPEC_BYTE(b, k) (((uint64_t)(b) >> (8 * (k))) & 0xffu)
#define SPEC_BSWAP64(b) ((SPEC_BYTE(b, 0) << 56) | (SPEC_BYTE(b, 1) << 48) | (SPEC_BYTE(b, 2) << 40) | (SPEC_BYTE(b, 3) << 32) | \
                         (SPEC_BYTE(b, 4) << 24) | (SPEC_BYTE(b, 5) << 16) | (SPEC_BYTE(b, 6) << 8) | SPEC_BYTE(b, 7))
static inline uint16_t spec_bswap16(uint16_t b) { return (uint16_t)((b << 8) | (b >> 8)); }
static inline uint32_t spec_bswap32(uint32_t b) {
    return ((b & 0xffu) << 24) | ((b & 0xff00u) << 8) | ((b >> 8) & 0xff00u) | (b >> 24);
}
static inline uint64_t spec_bswap64(uint64_t b) {
    uint64_t r = 0;
    for (uint8_t k = 0; k < 8; k++) r |= ((b >> (8 * k)) & 0xffu) << (8 * (7 - k));
    return r;
}
#endif
