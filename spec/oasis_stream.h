/* predicates over OasisStream used in contracts (need the lowered / real OasisStream type) */
#ifndef VF_OASIS_STREAM_H
#define VF_OASIS_STREAM_H
/* an input stream in file mode reading the ghost tape */
#define IN_STREAM(in) (VF_R_OK(in, sizeof(OasisStream)) && (in)->data == NULL && (in)->file == G_file && \
                       VF_R_OK(G_file, 1) && G_pos <= G_len && G_len <= VF_TAPE_MAX)
/* an output stream in file mode (no compression buffer, no running signature) writing the ghost tape */
#define OUT_STREAM(out) (VF_R_OK(out, sizeof(OasisStream)) && (out)->cursor == NULL && !(out)->crc32 && \
                         !(out)->checksum32 && (out)->file == W_file && VF_R_OK(W_file, 1) && W_pos <= VF_WTAPE_MAX)
#define WROOM(n) ((n) <= VF_WTAPE_MAX - W_pos)
#endif
