#ifndef VF_QUERY_SPEC_H
#define VF_QUERY_SPEC_H
double IN_px[2], IN_py[2];
#ifdef VF_CBMC
bool __CPROVER_uninterpreted_contain(const Polygon *, double, double);
#define vf_contain(p, x, y) __CPROVER_uninterpreted_contain((p), (x), (y))
#else
static inline bool vf_contain(const Polygon *p, double x, double y) { gdstk::Vec2 v = {x, y}; return p->contain(v); }
#endif
#endif
