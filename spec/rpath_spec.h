/* rpath_spec.h -- ghosts for the RobustPath transform contracts; |x| as the IEEE sign-bit clear */
#ifndef VF_RPATH_SPEC_H
#define VF_RPATH_SPEC_H
RobustPathElement *G_pe;   /* entry value of the element pointer the simple_scale loop advances */
static inline double vf_fabs(double x) { union { double d; uint64_t u; } p; p.d = x; p.u &= 0x7FFFFFFFFFFFFFFFUL; return p.d; }
#endif
