#ifndef VF_SORT_SPEC_H
#define VF_SORT_SPEC_H
#ifndef VF_SORTN
#define VF_SORTN 6
#endif
double GQd;   /* ghost query value: arbitrary, never assigned */
static inline uint64_t spec_count(const double *a, int64_t n, double v) {
    uint64_t c = 0;
    for (int64_t i = 0; i < VF_SORTN; i++) if (i < n && a[i] == v) c++;
    return c;
}
static inline bool spec_no_nan(const double *a, int64_t n) {
    for (int64_t i = 0; i < VF_SORTN; i++) if (i < n && a[i] != a[i]) return false;
    return true;
}
#endif
