/* tables_spec.h -- abstract views and representation invariants of gdstk's open-addressing hash
 * tables (TagMap, Set<T>, Map<T>, StyleMap), written from the property statement: "the table
 * contains exactly the entries an abstract map or set would, however keys collide".
 *
 * The hash function is UNINTERPRETED (vf_hash): a proof holds for every hash function, hence for
 * every collision and wrap-around pattern.  Loops run over the slots and are bounded by the
 * harness's capacity bound VF_CAPMAX (the only bound: histories, keys and hash are arbitrary).
 */
#ifndef VF_TABLES_SPEC_H
#define VF_TABLES_SPEC_H
#ifndef VF_CAPMAX
#define VF_CAPMAX 8
#endif
#ifdef VF_CBMC
uint64_t __CPROVER_uninterpreted_hash(uint64_t);
#define vf_hash(k) __CPROVER_uninterpreted_hash(k)
#else
#define vf_hash(k) hash_uint64_t__uint64_t(k)
#endif
uint64_t GQ;    /* ghost query key: arbitrary, never assigned ("for all keys q") */

#ifndef VF_NO_TAGMAP
/* ------------------------------------------------------------------ TagMap: Tag -> Tag,
 * abstract view = total function that is the identity except on finitely many keys */
#define TM_OCC(m, i) ((m)->items[i].key != (m)->items[i].value)

static inline uint64_t spec_tm_lookup(const TagMap *m, uint64_t q) {
    for (uint64_t i = 0; i < VF_CAPMAX; i++)
        if (i < m->capacity && TM_OCC(m, i) && m->items[i].key == q) return m->items[i].value;
    return q;
}
static inline uint64_t spec_tm_occupied(const TagMap *m) {
    uint64_t c = 0;
    for (uint64_t i = 0; i < VF_CAPMAX; i++)
        if (i < m->capacity && TM_OCC(m, i)) c++;
    return c;
}
/* linear probing invariant: from the home slot of every stored key up to its slot (cyclically)
 * there is no empty slot; no key is stored twice */
static inline bool spec_tm_chain_ok(const TagMap *m, uint64_t i) {
    uint64_t h = vf_hash(m->items[i].key) % m->capacity;
    uint64_t j = h;
    for (uint64_t s = 0; s < VF_CAPMAX; s++) {
        if (j == i) return true;
        if (!TM_OCC(m, j)) return false;
        j++;
        if (j == m->capacity) j = 0;
    }
    return false;
}
/* slot i is where a probe for key k stops: every slot from the home slot of k up to i (cyclically,
 * exclusive) is occupied by another key, and slot i is either empty or holds k */
static inline bool spec_tm_probe_stops(const TagMap *m, uint64_t k, uint64_t i) {
    if (i >= m->capacity) return false;
    if (TM_OCC(m, i) && m->items[i].key != k) return false;
    uint64_t j = vf_hash(k) % m->capacity;
    for (uint64_t s = 0; s < VF_CAPMAX; s++) {
        if (j == i) return true;
        if (!TM_OCC(m, j) || m->items[j].key == k) return false;
        j++;
        if (j == m->capacity) j = 0;
    }
    return false;
}
static inline bool spec_tm_wf(const TagMap *m) {
    if (m->capacity == 0) return m->count == 0;
    if (m->capacity > VF_CAPMAX || m->items == NULL) return false;
    if (m->count >= m->capacity || spec_tm_occupied(m) != m->count) return false;
    for (uint64_t i = 0; i < VF_CAPMAX; i++) {
        if (i < m->capacity && TM_OCC(m, i)) {
            if (!spec_tm_chain_ok(m, i)) return false;
            for (uint64_t j = 0; j < VF_CAPMAX; j++)
                if (j < i && TM_OCC(m, j) && m->items[j].key == m->items[i].key) return false;
        }
    }
    return true;
}
#endif /* VF_NO_TAGMAP */
#ifdef VF_WITH_SET

/* ------------------------------------------------------------------ Set<uint64_t>: abstract view = a finite set */
#define ST_OCC(m, i) ((m)->items[i].valid)
static inline bool spec_st_member(const Set_uint64_t *m, uint64_t q) {
    for (uint64_t i = 0; i < VF_CAPMAX; i++)
        if (i < m->capacity && ST_OCC(m, i) && m->items[i].value == q) return true;
    return false;
}
static inline uint64_t spec_st_occupied(const Set_uint64_t *m) {
    uint64_t c = 0;
    for (uint64_t i = 0; i < VF_CAPMAX; i++)
        if (i < m->capacity && ST_OCC(m, i)) c++;
    return c;
}
static inline bool spec_st_chain_ok(const Set_uint64_t *m, uint64_t i) {
    uint64_t j = vf_hash(m->items[i].value) % m->capacity;
    for (uint64_t s = 0; s < VF_CAPMAX; s++) {
        if (j == i) return true;
        if (!ST_OCC(m, j)) return false;
        j++;
        if (j == m->capacity) j = 0;
    }
    return false;
}
static inline bool spec_st_probe_stops(const Set_uint64_t *m, uint64_t k, uint64_t i) {
    if (i >= m->capacity) return false;
    if (ST_OCC(m, i) && m->items[i].value != k) return false;
    uint64_t j = vf_hash(k) % m->capacity;
    for (uint64_t s = 0; s < VF_CAPMAX; s++) {
        if (j == i) return true;
        if (!ST_OCC(m, j) || m->items[j].value == k) return false;
        j++;
        if (j == m->capacity) j = 0;
    }
    return false;
}
static inline bool spec_st_wf(const Set_uint64_t *m) {
    if (m->capacity == 0) return m->count == 0;
    if (m->capacity > VF_CAPMAX || m->items == NULL) return false;
    if (m->count >= m->capacity || spec_st_occupied(m) != m->count) return false;
    for (uint64_t i = 0; i < VF_CAPMAX; i++) {
        if (i < m->capacity && ST_OCC(m, i)) {
            if (!spec_st_chain_ok(m, i)) return false;
            for (uint64_t j = 0; j < VF_CAPMAX; j++)
                if (j < i && ST_OCC(m, j) && m->items[j].value == m->items[i].value) return false;
        }
    }
    return true;
}
#endif /* VF_WITH_SET */

#ifdef VF_WITH_MAP
/* ------------------------------------------------------------------ Map<uint64_t>: string keys (one-letter
 * strings in the harness: the abstract key is the letter), abstract view = partial function letter -> value.
 * hash(const char*) is replaced by an uninterpreted function of the letter. */
#define MP_OCC(m, i) ((m)->items[i].key != NULL)
#define MP_KEY(m, i) ((uint64_t)(uint8_t)(m)->items[i].key[0])
static inline bool spec_mp_has(const Map_uint64_t *m, uint64_t q) {
    for (uint64_t i = 0; i < VF_CAPMAX; i++)
        if (i < m->capacity && MP_OCC(m, i) && MP_KEY(m, i) == q) return true;
    return false;
}
static inline uint64_t spec_mp_lookup(const Map_uint64_t *m, uint64_t q) {
    for (uint64_t i = 0; i < VF_CAPMAX; i++)
        if (i < m->capacity && MP_OCC(m, i) && MP_KEY(m, i) == q) return m->items[i].value;
    return 0;
}
static inline uint64_t spec_mp_occupied(const Map_uint64_t *m) {
    uint64_t c = 0;
    for (uint64_t i = 0; i < VF_CAPMAX; i++)
        if (i < m->capacity && MP_OCC(m, i)) c++;
    return c;
}
static inline bool spec_mp_chain_ok(const Map_uint64_t *m, uint64_t i) {
    uint64_t j = vf_hash(MP_KEY(m, i)) % m->capacity;
    for (uint64_t s = 0; s < VF_CAPMAX; s++) {
        if (j == i) return true;
        if (!MP_OCC(m, j)) return false;
        j++;
        if (j == m->capacity) j = 0;
    }
    return false;
}
static inline bool spec_mp_probe_stops(const Map_uint64_t *m, uint64_t k, uint64_t i) {
    if (i >= m->capacity) return false;
    if (MP_OCC(m, i) && MP_KEY(m, i) != k) return false;
    uint64_t j = vf_hash(k) % m->capacity;
    for (uint64_t s = 0; s < VF_CAPMAX; s++) {
        if (j == i) return true;
        if (!MP_OCC(m, j) || MP_KEY(m, j) == k) return false;
        j++;
        if (j == m->capacity) j = 0;
    }
    return false;
}
/* keys are valid one-letter strings */
static inline bool spec_mp_keys_ok(const Map_uint64_t *m) {
    for (uint64_t i = 0; i < VF_CAPMAX; i++)
        if (i < m->capacity && MP_OCC(m, i) && !(VF_R_OK(m->items[i].key, 2) && m->items[i].key[0] != 0 && m->items[i].key[1] == 0)) return false;
    return true;
}
static inline bool spec_mp_wf(const Map_uint64_t *m) {
    if (m->capacity == 0) return m->count == 0;
    if (m->capacity > VF_CAPMAX || m->items == NULL) return false;
    if (!spec_mp_keys_ok(m)) return false;
    if (m->count >= m->capacity || spec_mp_occupied(m) != m->count) return false;
    for (uint64_t i = 0; i < VF_CAPMAX; i++) {
        if (i < m->capacity && MP_OCC(m, i)) {
            if (!spec_mp_chain_ok(m, i)) return false;
            for (uint64_t j = 0; j < VF_CAPMAX; j++)
                if (j < i && MP_OCC(m, j) && MP_KEY(m, j) == MP_KEY(m, i)) return false;
        }
    }
    return true;
}
#define KEY1(k) (VF_R_OK(k, 2) && (k)[0] != 0 && (k)[1] == 0)
#endif /* VF_WITH_MAP */
#endif
