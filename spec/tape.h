/* tape.h -- ghost byte tapes standing for the input file and the output file (DESIGN.md 3.4).
 *
 * Input:  IN_tape[0..G_len) is the file content, G_pos the read position of the one open input
 *         handle G_file.  A read past G_len is a short read (that is how a regular file that was
 *         cut short behaves); every byte and the length are nondeterministic in the harness.
 * Output: W_tape[0..W_pos) is what has been written to the one open output handle W_file.
 *
 * Under CBMC stdio is replaced by the ASSUMED contracts in models/stdio_contracts.h, which speak
 * about these globals.  Natively the same names are macros over a real FILE* (tmpfile), so a
 * contract clause written with G_pos / G_len / IN_tape / W_pos / W_tape evaluates on both sides.
 */
#ifndef VF_TAPE_H
#define VF_TAPE_H
#ifndef VF_CBMC
#include <unistd.h>
#endif
#ifndef VF_TAPE_MAX
#define VF_TAPE_MAX 64
#endif
#ifndef VF_WTAPE_MAX
#define VF_WTAPE_MAX 64
#endif

uint8_t IN_tape[VF_TAPE_MAX];
uint64_t IN_len;            /* input: file length, <= VF_TAPE_MAX */
uint64_t IN_pos0;           /* input: initial read position */
uint8_t IN_openfail;        /* input: may fopen fail? (0 = never) */
FILE *G_file;               /* the open input handle */
FILE *W_file;               /* the open output handle */
uint64_t GK;                /* ghost index: arbitrary, never assigned (stands for "for all k") */
uint64_t GK2;

#ifdef VF_CBMC
uint64_t G_len, G_pos;
int G_open;                 /* number of open input handles (0 or 1) */
uint8_t W_tape[VF_WTAPE_MAX];
uint64_t W_pos;
bool G_eof;
static inline void vf_tape_open(void) {
    G_len = IN_len; G_pos = IN_pos0; G_eof = false;
    __CPROVER_assume(G_len <= VF_TAPE_MAX && G_pos <= G_len);
    G_file = (FILE *)malloc(1);
    __CPROVER_assume(G_file != NULL);
    G_open = 1;
}
/* a file on disk that the function under test opens itself (by name) */
static inline const char *vf_tape_file(void) {
    G_len = IN_len; G_pos = 0; G_eof = false; G_open = 0;
    __CPROVER_assume(G_len <= VF_TAPE_MAX);
    G_file = (FILE *)malloc(1);
    __CPROVER_assume(G_file != NULL);
    return "tape";
}
static inline void vf_wtape_open(void) {
    W_pos = 0;
    W_file = (FILE *)malloc(1);
    __CPROVER_assume(W_file != NULL && W_file != G_file);
}
static inline void vf_tape_close(void) { free(G_file); }
static inline void vf_wtape_close(void) { free(W_file); }
#else
static uint8_t vf_wbuf[VF_WTAPE_MAX + 64];
static char vf_tape_path[64];
static int vf_fd_count(void) {
    int n = 0; char p[64];
    for (int fd = 0; fd < 256; fd++) { snprintf(p, sizeof p, "/proc/self/fd/%d", fd); if (access(p, F_OK) == 0) n++; }
    return n;
}
static int vf_fd0;
static inline uint64_t vf_tape_pos(void) { return G_file ? (uint64_t)ftell(G_file) : 0; }
static inline uint64_t vf_wtape_pos(void) { fflush(W_file); return (uint64_t)ftell(W_file); }
static inline uint8_t *vf_wtape_snapshot(void) {
    long p = ftell(W_file); fflush(W_file);
    memset(vf_wbuf, 0, sizeof vf_wbuf);
    fseek(W_file, 0, SEEK_SET);
    size_t got = fread(vf_wbuf, 1, sizeof vf_wbuf, W_file); (void)got;
    fseek(W_file, p, SEEK_SET);
    return vf_wbuf;
}
#define G_len IN_len
#define G_pos vf_tape_pos()
#define W_pos vf_wtape_pos()
#define W_tape vf_wtape_snapshot()
static inline void vf_tape_open(void) {
    VF_ASSUME(IN_len <= VF_TAPE_MAX && IN_pos0 <= IN_len);
    vf_fd0 = vf_fd_count();
    G_file = tmpfile();
    if (IN_len) fwrite(IN_tape, 1, IN_len, G_file);
    fflush(G_file); fseek(G_file, (long)IN_pos0, SEEK_SET);
}
static inline void vf_wtape_open(void) { W_file = tmpfile(); }

static inline const char *vf_tape_file(void) {
    VF_ASSUME(IN_len <= VF_TAPE_MAX);
    snprintf(vf_tape_path, sizeof vf_tape_path, "/tmp/vf_tape_%d.bin", (int)getpid());
    FILE *f = fopen(vf_tape_path, "wb");
    if (IN_len) fwrite(IN_tape, 1, IN_len, f);
    fclose(f);
    vf_fd0 = vf_fd_count();
    return vf_tape_path;
}
/* number of handles the function under test left open */
#define G_open (vf_fd_count() - vf_fd0)
static inline void vf_tape_close(void) { fclose(G_file); }
static inline void vf_wtape_close(void) { fclose(W_file); }
#endif
#endif
