"""C09 -- bounding boxes are exact (polygon part; see DESIGN.md for what is not covered)."""
LEVEL = 'proof'
GROUPS = [
    dict(name='poly_bbox', tu='src/polygon.cpp', spec_headers=['spec/ghost.h', 'spec/geom_spec.h'], models=[],
         harness='harness/c09.c', roots=['gdstk::Polygon::bounding_box'], stubs=['gdstk::Repetition::get_extrema'],
         entry='h_poly_bbox', enforce='Polygon__bounding_box', kind='unbounded',
         bound='none for the vertex loop (loop contract, any number of vertices); polygons without repetition',
         unwind=None, unwindset={'Polygon__bounding_box.1': 1}, timeout=1800, tier='quick'),
    # poly_bbox_rep (polygon WITH repetition; contract Polygon__bounding_box_rep in contracts/bbox.ct, get_extrema modelled):
    # needs IEEE monotonicity of + for 16 comparisons; undecided after 40 min with minisat and with cadical; NOT claimed.
]
TRUSTED_BASE = ['clang 14 AST', 'tools/cxx2c.py lowering', 'cbmc 6.11.0 (dfcc + SAT)', 'side-car contracts']
ASSUMPTIONS = ['coordinates are numbers (no NaN); IEEE-754 comparisons, bit-precise',
               'not covered: repetitions on polygons/labels, references, cells, convex hulls (qhull), the GeometryInfo cache']
EXPLANATION = ''
