"""C09 -- bounding boxes are exact (polygon part; see DESIGN.md for what is not covered)."""
LEVEL = 'proof'
GROUPS = [
    dict(name='poly_bbox', tu='src/polygon.cpp', spec_headers=['spec/ghost.h', 'spec/geom_spec.h'], models=[],
         harness='harness/c09.c', roots=['gdstk::Polygon::bounding_box'], stubs=['gdstk::Repetition::get_extrema'],
         entry='h_poly_bbox', enforce='Polygon__bounding_box', kind='unbounded',
         bound='none for the vertex loop (loop contract, any number of vertices); polygons without repetition',
         unwind=None, unwindset={'Polygon__bounding_box.1': 1}, timeout=1800, tier='quick'),
    dict(name='poly_bbox_rep', tu='src/polygon.cpp', spec_headers=['spec/ghost.h', 'spec/geom_spec.h', 'spec/extrema_in.h'],
         models=['models/alloc_models.h', 'models/extrema_model.h'], harness='harness/c09.c', roots=['gdstk::Polygon::bounding_box'],
         entry='h_poly_bbox_rep', enforce='Polygon__bounding_box/Polygon__bounding_box_rep', kind='unbounded', no_native=True,
         bound='any number of vertices (loop contract); up to 4 extreme offsets handed out by the get_extrema model (loop unwound)',
         unwind=6, timeout=2400, tier='thorough', solver='cadical'),
]
TRUSTED_BASE = ['clang 14 AST', 'tools/cxx2c.py lowering', 'cbmc 6.11.0 (dfcc + SAT)', 'side-car contracts']
ASSUMPTIONS = ['coordinates are numbers (no NaN); IEEE-754 comparisons, bit-precise',
               'poly_bbox_rep: Repetition::get_extrema is a C model handing out up to 4 arbitrary offsets (its lattice kinds are proved in C11); the claim is containment of the displaced vertices, not tightness', 'not covered: labels, references, cells, convex hulls (qhull), the GeometryInfo cache']
EXPLANATION = ''
