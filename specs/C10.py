"""C10 -- element transforms are the documented affine maps."""
# overall level: the quick tier contains three BOUNDED groups (rpath_simple_scale, fpath_transform_11,
# fpath_scale_11), and a bounded stand-in is never counted as proved, so the property as a whole is reported as
# model_checking; evidence.coverage.by_kind / proved_unbounded say which obligations are unbounded proofs.
LEVEL = 'model_checking'


def P(name, fn, entry, **kw):
    d = dict(name=name, tu='src/polygon.cpp', spec_headers=['spec/ghost.h', 'spec/geom_spec.h'],
             models=['models/libm_contracts.h'], harness='harness/c10.c', roots=['gdstk::Polygon::' + fn],
             entry=entry, enforce='Polygon__' + fn, replace_extern=['cos', 'sin'], kind='unbounded',
             bound='none: loop contract over any number of vertices (up to 2^28); arbitrary vertex index and arbitrary doubles',
             unwind=None, timeout=1800, tier='quick', uf_fp=True)
    d.update(kw)
    return d


GROUPS = [
    P('poly_translate', 'translate', 'h_poly_translate', replace_extern=[]),
    P('poly_scale', 'scale', 'h_poly_scale', replace_extern=[]),
    P('poly_mirror', 'mirror', 'h_poly_mirror', replace_extern=[], uf_fdiv=True, no_refine=True),
    P('poly_rotate', 'rotate', 'h_poly_rotate'),
    P('poly_transform', 'transform', 'h_poly_transform'),
    P('label_transform', 'transform', 'h_label_transform', tu='src/label.cpp', roots=['gdstk::Label::transform'],
      enforce='Label__transform', bound='loop-free: all doubles, both reflection states'),
    P('reference_transform', 'transform', 'h_reference_transform', tu='src/reference.cpp', roots=['gdstk::Reference::transform'],
      enforce='Reference__transform', bound='loop-free: all doubles, both reflection states'),
    P('rep_transform_rect', 'transform', 'h_rep_transform', tu='src/repetition.cpp', roots=['gdstk::Repetition::transform'],
      enforce='Repetition__transform', harness='harness/c11.c', models=['models/libm_contracts.h', 'models/alloc_models.h'],
      defines={'VF_FIXED_TYPE': 1}, unwind=3, kind='unbounded', timeout=900,
      bound='Rectangular kind: loop-free, complete over all doubles, both reflection states, all column/row counts'),
    P('rep_transform_regular', 'transform', 'h_rep_transform', tu='src/repetition.cpp', roots=['gdstk::Repetition::transform'],
      enforce='Repetition__transform', harness='harness/c11.c', models=['models/libm_contracts.h', 'models/alloc_models.h'],
      defines={'VF_FIXED_TYPE': 2}, unwind=3, kind='unbounded', timeout=900,
      bound='Regular kind: loop-free, complete over all doubles, both reflection states, all column/row counts'),
] + [
    P('rep_transform_explicit' + sfx, 'transform', 'h_rep_transform', tu='src/repetition.cpp', roots=['gdstk::Repetition::transform'],
      enforce='Repetition__transform', harness='harness/c11.c', models=['models/libm_contracts.h', 'models/alloc_models.h'],
      defines={'VF_FIXED_TYPE': t, 'VF_EXPLICIT_ONLY': 1}, unwind=4, kind='bounded', timeout=3600, disjoint_unions=['Repetition'],
      apply_loop_contracts=False, loop_contracts_for=[], tier='thorough',
      bound='%s kind with a rotation: coordinate lists of 1..2 entries (loops unwound, unwinding assertions on), all doubles, both reflection states' % nm)
    for sfx, t, nm in [('x', 4, 'ExplicitX'), ('y', 5, 'ExplicitY')]
] + [
    # rep_transform_explicitx/y (thorough tier, ~28 min each): round 1 could not decide them (CBMC union-pointer limit, DESIGN 9.8, plus a
    # pipeline defect: bounded groups got no ghost-entry snapshots); with disjoint_unions and the snapshot fix rep_transform_explicity
    # discharges 1040/1040 obligations (round 2).
]
def RP(name, fn, replace=(), **kw):
    d = dict(name='rpath_' + name, tu='src/robustpath.cpp', spec_headers=['spec/ghost.h', 'spec/geom_spec.h', 'spec/rpath_spec.h'],
             models=['models/libm_contracts.h'], harness='harness/c10_rpath.c', roots=['gdstk::RobustPath::' + fn],
             entry='h_rpath_' + name, enforce='RobustPath__' + fn, replace=list(replace), replace_extern=['cos', 'sin', 'fabs'],
             defines={'VF_FABS_CONTRACT': 1}, kind='unbounded', unwind=None, timeout=900, tier='quick', uf_fp=True,
             bound='loop-free: all matrices, all doubles' if fn != 'simple_scale' else 'none: loop contract over any number of path elements (up to 2^20), arbitrary element index')
    d.update(kw)
    return d


SS = 'RobustPath__simple_scale/RobustPath__simple_scale_m'
GROUPS += [
    RP('translate', 'translate', replace_extern=[]),
    RP('x_reflection', 'x_reflection', replace_extern=[]),
    RP('simple_rotate', 'simple_rotate', replace_extern=['cos', 'sin']),
    # the unbounded variant (loop contract of contracts/robustpath_transform.ct over a symbolic number of elements) timed out
    # after 900 s; the bounded variant below unwinds the element loop
    RP('simple_scale', 'simple_scale', replace_extern=['fabs'], kind='bounded', unwind=4, apply_loop_contracts=False, loop_contracts_for=[],
       defines={'VF_FABS_CONTRACT': 1, 'VF_SMALL_ELEMS': 1},
       bound='0..2 path elements (loop unwound, unwinding assertions on); all matrices, all doubles, scale_width on and off'),
    # callers: verified against the callees' CONTRACTS (bodies dropped)
    RP('scale', 'scale', replace=[SS, 'RobustPath__translate'], replace_extern=[], loop_contracts_for=[]),
    RP('rotate', 'rotate', replace=['RobustPath__simple_rotate', 'RobustPath__translate'], replace_extern=[], loop_contracts_for=[]),
    RP('transform', 'transform', replace=[SS, 'RobustPath__x_reflection', 'RobustPath__simple_rotate', 'RobustPath__translate'],
       replace_extern=[], loop_contracts_for=[]),
]
GROUPS += [
    dict(name='fpath_transform', tu='src/flexpath.cpp', spec_headers=['spec/ghost.h', 'spec/geom_spec.h', 'spec/fpath_spec.h'],
         models=['models/libm_contracts.h'], harness='harness/c10_fpath.c', roots=['gdstk::FlexPath::transform'],
         entry='h_fpath_transform', enforce='FlexPath__transform', replace_extern=['cos', 'sin'], replace_extern_if_called=['fabs'], defines={'VF_FABS_CONTRACT': 1},
         kind='bounded', unwind=4, timeout=2400, tier='thorough', uf_fp=True, apply_loop_contracts=False, loop_contracts_for=[], solver='cadical',
         bound='0..2 spine points, 0..2 path elements (loops unwound, unwinding assertions on); all doubles, both reflection states, scale_width on and off'),
]
GROUPS += [dict(GROUPS[-1], name='fpath_transform_11', tier='quick', timeout=900, defines={'VF_FABS_CONTRACT': 1, 'VF_FP_MAXN': 1, 'VF_FP_MAXNE': 1}, unwind=3,
                bound='0..1 spine points, 0..1 path elements (loops unwound, unwinding assertions on); all doubles, both reflection states, scale_width on and off')]
GROUPS += [
    P('fpath_translate', 'translate', 'h_fpath_translate', tu='src/flexpath.cpp', roots=['gdstk::FlexPath::translate'], enforce='FlexPath__translate',
      harness='harness/c10_fspine.c', replace_extern=[]),
    P('fpath_rotate', 'rotate', 'h_fpath_rotate', tu='src/flexpath.cpp', roots=['gdstk::FlexPath::rotate'], enforce='FlexPath__rotate',
      harness='harness/c10_fspine.c'),
]
_FP11 = [g for g in GROUPS if g['name'] == 'fpath_transform_11'][0]
GROUPS += [
    dict(_FP11, name='fpath_scale_11', roots=['gdstk::FlexPath::scale'], entry='h_fpath_scale', enforce='FlexPath__scale', replace_extern=[], replace_extern_if_called=['fabs']),
    dict(_FP11, name='fpath_mirror_11', roots=['gdstk::FlexPath::mirror'], entry='h_fpath_mirror', enforce='FlexPath__mirror', replace_extern=[], replace_extern_if_called=[],
         uf_fdiv=True, no_refine=True, tier='thorough', timeout=2400),
]
TRUSTED_BASE = ['clang 14 AST', 'tools/cxx2c.py lowering', 'cbmc 6.11.0 (dfcc + SAT)', 'side-car contracts; spec/geom_spec.h']
ASSUMPTIONS = ['cos and sin and the double operations + - * are uninterpreted functions (sound over-approximation: what holds for arbitrary functions holds for IEEE arithmetic)',
               'equality with the affine map is bit-exact against one canonical evaluation order (a re-association of the floating-point operations would be reported)']
EXPLANATION = ''
