"""C11 -- repetitions enumerate exactly their offsets (count and extreme offsets; see DESIGN.md)."""
LEVEL = 'model_checking'


def R(name, fn, entry, **kw):
    d = dict(name=name, tu='src/repetition.cpp', spec_headers=['spec/ghost.h', 'spec/geom_spec.h'], models=['models/alloc_models.h'],
             harness='harness/c11.c', roots=['gdstk::Repetition::' + fn], entry=entry, enforce='Repetition__' + fn,
             kind='unbounded', bound='', unwind=None, timeout=1800, tier='quick', uf_fp=True)
    d.update(kw)
    return d


GROUPS = [
    R('rep_count', 'get_count', 'h_rep_count', bound='loop-free; every kind, every count'),
    R('rep_count_explicit', 'get_count', 'h_rep_count', defines={'VF_FIXED_TYPE': 3, 'VF_SMALL_OFFSETS': 1}, unwind=4, kind='bounded',
      disjoint_unions=['Repetition'], apply_loop_contracts=False, loop_contracts_for=[],
      bound='Explicit kind with 0..2 listed offsets of arbitrary value (zero vectors and duplicates included); the function is loop-free, the unwinding bound only matters for changed code'),
    R('rep_extrema_lattice', 'get_extrema', 'h_rep_extrema', unwind=3, apply_loop_contracts=False, loop_contracts_for=[],
      defines={'VF_LATTICE_ONLY': 1}, timeout=900,
      bound='Rectangular and Regular kinds: loop-free, all column/row counts including 0 and 1'),
    R('rep_extrema_explicit', 'get_extrema', 'h_rep_extrema', defines={'VF_EXPLICIT_KINDS': 1}, timeout=1500, disjoint_unions=['Repetition'],
      bound='ExplicitX and ExplicitY kinds: coordinate lists of any length (loop contracts, ghost index + ghost witnesses)'),
] + [
    R('rep_offsets_explicit' + sfx, 'get_offsets', 'h_rep_offsets', enforce='Repetition__get_offsets/Repetition__get_offsets_explicit',
      defines={'VF_FIXED_TYPE': t, 'VF_EXPLICIT_ONLY': 1}, unwind=5, kind='bounded', timeout=900, disjoint_unions=['Repetition'],
      apply_loop_contracts=False, loop_contracts_for=[], uf_fp=False,
      bound='%s kind: coordinate lists of 0..3 entries (loop unwound, unwinding assertions on), arbitrary doubles' % nm)
    for sfx, t, nm in [('x', 4, 'ExplicitX'), ('y', 5, 'ExplicitY')]
] + [
] + [
    # rep_offsets_rect / rep_offsets_regular (get_offsets, lattices <= 3 x 3; contract in contracts/repetition.ct):
    # out of memory (writes through a double* view of the Vec2 array at loop-dependent offsets), also with the kind fixed per group
    # (round 2: cbmc error after 177 s); not claimed.
    # rep_extrema_explicit (bounded ExplicitX/Y, <= 3 coordinates): CBMC reports postcondition failures whose printed
    # counterexample satisfies the clause and replays clean natively; unexplained, so the group is NOT claimed.
    # full get_extrema incl. the ExplicitX/ExplicitY coordinate loops (loop contracts in contracts/repetition.ct):
    # undecided after 20 min; not claimed.
    dict(name='ref_apply_repetition', tu='src/reference.cpp', spec_headers=['spec/apply_rep_spec.h'], models=['models/apply_rep_models.h'],
         harness='harness/c11_apply.c', roots=['gdstk::Reference::apply_repetition'], entry='h_ref_apply_repetition', enforce=None,
         kind='bounded', bound='a by-pointer reference whose repetition denotes 1..3 offsets (arbitrary finite values, the first one zero); loops unwound with unwinding assertions',
         unwind=5, timeout=1200, tier='quick', uf_fp=True),
    dict(name='ref_apply_repetition_empty', tu='src/reference.cpp', spec_headers=['spec/apply_rep_spec.h'], models=['models/alloc_models.h', 'models/apply_rep_models.h'],
         harness='harness/c11_apply.c', roots=['gdstk::Reference::apply_repetition'], entry='h_ref_apply_repetition', enforce=None,
         kind='bounded', bound='a reference whose repetition is a lattice with zero columns (denotes no vector): no copies, no memory error',
         defines={'VF_EMPTY_REPETITION': 1, 'VF_REALLOC_MOVES': 1}, unwind=5, timeout=1200, tier='quick'),
] + [
    dict(name=nm, tu=tu, spec_headers=['spec/apply_rep_spec.h'], models=['models/alloc_models.h', 'models/apply_rep_models.h'],
         harness='harness/c11_apply.c', roots=[root], entry=entry, enforce=None, kind='bounded', bound=bound,
         defines=dict({'VF_REALLOC_MOVES': 1}, **defs), unwind=5, timeout=1200, tier='quick', uf_fp=True)
    for nm, tu, root, entry, defs, bound in [
        ('label_apply_repetition', 'src/label.cpp', 'gdstk::Label::apply_repetition', 'h_label_apply_repetition', {}, 'a label whose repetition denotes 1..3 offsets (arbitrary values, the first one zero)'),
        ('label_apply_repetition_empty', 'src/label.cpp', 'gdstk::Label::apply_repetition', 'h_label_apply_repetition', {'VF_EMPTY_REPETITION': 1}, 'a label whose repetition is a lattice with zero columns'),
        # poly_apply_repetition (non-empty): one assertion fails under CBMC with a counterexample that passes natively
        # (suspected: CBMC's memcpy model on the vertex copy); unexplained, NOT claimed.
        ('poly_apply_repetition_empty', 'src/polygon.cpp', 'gdstk::Polygon::apply_repetition', 'h_poly_apply_repetition', {'VF_EMPTY_REPETITION': 1}, 'a polygon whose repetition is a lattice with zero columns'),
    ]
]
TRUSTED_BASE = ['clang 14 AST', 'tools/cxx2c.py lowering', 'cbmc 6.11.0 (dfcc + SAT)', 'side-car contracts']
ASSUMPTIONS = ['double multiplication/addition in the lattice corner formulas are uninterpreted (same expression of the same inputs); comparisons are IEEE, bit-precise',
               'coordinates are numbers (no NaN)', 'malloc/realloc never fail',
               'ref_apply_repetition: get_offsets, Repetition::clear/copy_from, properties_copy, copy_string (other translation units) are C models (models/apply_rep_models.h)', 'not covered: get_offsets itself, the explicit kinds of get_extrema, the other four apply_repetition functions, empty repetitions (count 0)']
EXPLANATION = ''
