"""C12 -- fracture (narrow: the frame for polygons that already fit the limit)."""
LEVEL = 'model_checking'
GROUPS = [
    dict(name='fracture_fits', tu='src/polygon.cpp', spec_headers=['spec/fracture_spec.h'], models=['models/fracture_models.h'], harness='harness/c12.c',
         roots=['gdstk::Polygon::fracture'], stubs=['gdstk::slice'], entry='h_fracture_fits', enforce=None,
         kind='bounded',
         bound='every polygon of up to 3 vertices (arbitrary coordinates), every vertex limit (so either below five, or the polygon already fits): slice() is not reached; loops unwound with unwinding assertions',
         unwind=5, timeout=1500, tier='quick'),
]
TRUSTED_BASE = ['clang 14 AST', 'tools/cxx2c.py lowering', 'cbmc 6.11.0 (SAT) with its C library models', 'model assertions in harness/c12.c']
ASSUMPTIONS = ['Repetition::copy_from and properties_copy (other translation units) are represented by ASSUMED contracts: they return a copy',
               'not covered: polygons that are actually cut (slice() is ClipperLib), region preservation, non-overlap, the GDSII writer call site']
EXPLANATION = 'bounded check of the part of the fracture contract that does not depend on ClipperLib'
