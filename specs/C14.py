"""C14 -- point-in-polygon queries and polygon measures are exact (bounded exhaustive part)."""
LEVEL = 'model_checking'


def G(name, fn, entry, n=4, r=2, **kw):
    d = dict(name=name, tu='src/polygon.cpp', spec_headers=['spec/ghost.h', 'spec/geom_spec.h'], models=[], harness='harness/c14.c',
             roots=['gdstk::Polygon::' + fn], entry=entry, enforce=None, kind='bounded',
             bound='every vertex list of up to %d vertices on the integer grid -%d..%d and every query point on the half-integer grid around it (all exactly representable); loops unwound with unwinding assertions' % (n, r, r),
             defines={'C14_N': n, 'C14_R': r}, unwind=n + 2, timeout=2400, tier='quick')
    d.update(kw)
    return d


GROUPS = [
    G('contain', 'contain', 'h_contain', n=3, r=1),
    G('signed_area', 'signed_area', 'h_signed_area', n=3, r=2),
    G('area', 'area', 'h_area', n=3, r=2, replace=['Repetition__get_count']),
    G('perimeter', 'perimeter', 'h_perimeter', n=3, r=1, tier='thorough', timeout=2400),
    G('contain_r2', 'contain', 'h_contain', n=3, r=2, tier='thorough', timeout=9000),
    G('area_n4', 'area', 'h_area', n=4, r=2, tier='thorough', timeout=9000, replace=['Repetition__get_count']),
] + [
    dict(name=nm, tu='src/polygon.cpp', spec_headers=['spec/ghost.h', 'spec/geom_spec.h', 'spec/query_spec.h'], models=[],
         harness='harness/c14_group.c', roots=roots, entry=entry, enforce=None, kind='bounded',
         replace=['Polygon__contain/Polygon__contain_uf', 'Polygon__bounding_box/Polygon__bounding_box_lemma'],
         bound='up to 2 points x up to 2 polygons, arbitrary (non-NaN) coordinates; the single-polygon answer is an uninterpreted predicate; loops unwound with unwinding assertions',
         unwind=4, timeout=900, tier='quick')
    for nm, roots, entry in [
        ('contain_all', ['gdstk::Polygon::contain_all'], 'h_contain_all'),
        ('contain_any', ['gdstk::Polygon::contain_any'], 'h_contain_any'),
        ('inside', ['gdstk::inside'], 'h_inside'),
        ('all_inside', ['gdstk::all_inside'], 'h_all_inside'),
        ('any_inside', ['gdstk::any_inside'], 'h_any_inside'),
    ]
]
TRUSTED_BASE = ['clang 14 AST', 'tools/cxx2c.py lowering', 'cbmc 6.11.0 (SAT, bit-precise IEEE doubles)', 'the integer oracle in harness/c14.c']
ASSUMPTIONS = ['bounded: vertex count and coordinate grid as stated per group', 'group queries: ASSUMED lemma that a contained point lies in the polygon bounding box (asserted, bounded, in group contain); perimeter is in the thorough tier only; not covered: repetition kinds other than Rectangular for area']
EXPLANATION = 'bounded exhaustive comparison of the real functions against an exact integer oracle; no unbounded claim'
