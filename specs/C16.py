"""C16 -- library edits keep the cell graph consistent (bounded part)."""
LEVEL = 'model_checking'


def G(name, roots, entry, **kw):
    d = dict(name=name, tu='src/library.cpp', spec_headers=[], models=[], harness='harness/c16.c', roots=roots,
             entry=entry, enforce=None, kind='bounded',
             bound='one edit on every library of 2 cells (names from a 3-letter alphabet) x up to 2 references each (by pointer, by name incl. absent names, or to a raw cell); loops unwound with unwinding assertions',
             unwind=5, timeout=2400, tier='quick')
    d.update(kw)
    return d


GROUPS = [
    G('rename_cell', ['flat:Library__rename_cell__Cell_p_char_p'], 'h_rename_cell'),
] + [
    G('replace_cell_%s_%d%d' % (nm, t0, t1), ['flat:' + fn], entry, defines={'NR': 1, 'C16_T0': t0, 'C16_T1': t1}, unwind=4,
      bound='one replacement on every library of 2 cells with one reference each; reference kinds fixed per group (0 = by pointer, 2 = by name); names from a 3-letter alphabet incl. absent cells')
    for nm, fn, entry in [('cell', 'Library__replace_cell__Cell_p_Cell_p', 'h_replace_cell_cell'), ('raw', 'Library__replace_cell__Cell_p_RawCell_p', 'h_replace_cell_raw')]
    for t0 in (0, 2) for t1 in (0, 2)
    # Cell -> RawCell with by-pointer references: out of memory in propositional reduction (pointer union); not claimed
    if nm == 'cell' or (t0, t1) == (2, 2)
    # replace_cell(RawCell*, Cell*) (harness h_replace_raw_by_cell): the by-name groups fail under CBMC with
    # counterexamples that pass natively (unexplained, cf. DESIGN.md 9.8); NOT claimed.
]
TRUSTED_BASE = ['clang 14 AST', 'tools/cxx2c.py lowering', 'cbmc 6.11.0 (SAT) with its C library models (strcmp, strlen, memcpy, realloc)', 'the model assertions in harness/c16.c']
ASSUMPTIONS = ['bounded: library size as stated', 'cell names in a library are unique', 'not covered: the other replace_cell overloads, top_level, get_dependencies, remap_tags, copies']
EXPLANATION = 'bounded model checking of single edit operations from every small library state'
