"""C18 -- a truncated GDSII file is never read as complete and never crashes a reader."""
LEVEL = 'model_checking'
HDR = ['spec/tape.h', 'spec/ghost.h', 'spec/oasis_spec.h', 'spec/gds_spec.h']
STDIO = ['fread', 'fputs', 'feof', 'ferror']


def G(name, **kw):
    d = dict(name=name, spec_headers=HDR, models=['models/stdio_contracts.h'], harness='harness/c18.c',
             kind='unbounded', bound='', unwind=None, timeout=1800, tier='quick')
    d.update(kw)
    return d


GROUPS = [
    G('read_record', tu='src/gdsii.cpp', roots=['gdstk::gdsii_read_record'], entry='h_read_record',
      enforce='gdsii_read_record', replace=['big_endian_swap16/big_endian_swap16_small'], replace_extern=STDIO,
      defines={'VF_TAPE_MAX': 128, 'VF_BUFCAP': 96}, kind='bounded',
      bound='loop-free function; explored with caller buffers of up to 96 bytes and files of up to 128 bytes (every byte, length, start position and declared record length 0..65535 arbitrary); a 65537-byte buffer did not fit CBMC memory'),
    G('gds_units', tier='thorough', timeout=3600, tu='src/library.cpp', roots=['gdstk::gds_units'], entry='h_gds_units', enforce='gds_units',
      replace=['gdsii_read_record', 'big_endian_swap64/big_endian_swap64_small', 'gdsii_real_to_double'],
      replace_extern=['fopen', 'fclose', 'fputs'], defines={'VF_TAPE_MAX': 4096},
      bound='none: the record loop is closed by a loop contract (invariant: handle open, position inside the file; variant: bytes left); file length up to 4096 bytes'),
    G('oas_precision', tu='src/library.cpp', roots=['gdstk::oas_precision'], entry='h_oas_precision', enforce='oas_precision',
      replace=['oasis_read_string', 'oasis_read_real'], replace_extern=['fopen', 'fclose', 'fputs', 'fread'],
      defines={'VF_TAPE_MAX': 64}, unwind=16, kind='bounded', spec_headers=HDR + ['spec/oasis_stream.h'],
      bound='loop-free function; file length up to 64 bytes (header 14 + version string + real), every byte and every length arbitrary'),
    G('oas_validate', tu='src/library.cpp', roots=['gdstk::oas_validate'], entry='h_oas_validate', enforce='oas_validate',
      replace=['checksum32', 'little_endian_swap32/little_endian_swap32_id'], replace_extern=['fopen', 'fclose', 'fputs', 'fread/fread_whole', 'fseek', 'ftell', 'crc32'],
      defines={'VF_TAPE_MAX': 64}, unwind=2, unwindset={'__CPROVER_contracts_write_set_check_assigns_clause_inclusion.0': 20, 'memcmp.0': 16}, kind='bounded',
      bound='file length up to 64 bytes (the 32 KiB chunk loops are then not entered: unwinding assertions check that), every byte and length arbitrary'),
    G('gds_timestamp', tier='thorough', timeout=3600, tu='src/library.cpp', roots=['gdstk::gds_timestamp'], entry='h_gds_timestamp', enforce='gds_timestamp',
      replace=['gdsii_read_record', 'big_endian_swap16/big_endian_swap16_small'],
      replace_extern=['fopen', 'fclose', 'fputs'], defines={'VF_TAPE_MAX': 4096},
      bound='read-only mode; record loop closed by a loop contract; file length up to 4096 bytes'),
    # gds_info: contract + loop contract in contracts/gds_readers.ct, harness h_gds_info; out of memory in propositional
    # reduction (whole-struct frame of LibraryInfo); NOT claimed.
    # read_rawcells (src/rawcell.cpp): bounded harness (files <= 16 bytes) did not leave CBMC within 40 min
    # (Map<RawCell*> with string keys inlined); NOT claimed -- see DESIGN.md.  Its contract stays in contracts/gds_readers.ct.
]
TRUSTED_BASE = ['clang 14 AST', 'tools/cxx2c.py lowering', 'cbmc 6.11.0 (dfcc + SAT)', 'side-car contracts']
ASSUMPTIONS = [
    'not covered: read_gds (full loader), read_rawcells, gds_info, gds_timestamp in rewrite mode, the signature arithmetic of oas_validate (crc32/checksum32 are uninterpreted)',
    'stdio behaves as the assumed contracts in models/stdio_contracts.h (regular file: short reads only at end of file; one input file; fopen may fail)',
    'error_logger is NULL (logging through fprintf is not modelled)',
]
EXPLANATION = 'contract proofs of the GDSII record reader and of the light-weight GDSII/OASIS queries on an arbitrary byte tape (every prefix of every file)'
