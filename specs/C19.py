"""C19 -- number encodings used by the file formats are lossless (DESIGN.md section 5, C19)."""
LEVEL = 'proof'
OASIS = dict(tu='src/oasis.cpp', spec_headers=['spec/tape.h', 'spec/oasis_spec.h', 'spec/oasis_stream.h'],
             models=['models/stdio_contracts.h'], harness='harness/c19.c')


def G(name, **kw):
    d = dict(OASIS)
    d.update(name=name, kind='width_bounded', bound='loops bounded by the operand width: 10 groups of 7 bits; tape window 64 bytes',
             unwind=12, timeout=900, tier='quick')
    d.update(kw)
    return d


GROUPS = [
    G('uint_read', roots=['gdstk::oasis_read_unsigned_integer'], entry='h_uint_read',
      enforce='oasis_read_unsigned_integer', replace=['oasis_read'], replace_extern=['fputs']),
    G('uint_write', roots=['gdstk::oasis_write_unsigned_integer'], entry='h_uint_write',
      enforce='oasis_write_unsigned_integer', replace=['oasis_write']),
]

TRUSTED_BASE = [
    'clang 14 AST (-ast-dump=json) of /repo/src/oasis.cpp, gdsii.cpp, utils.cpp',
    'tools/cxx2c.py lowering C++ -> C11 (regenerated from the working tree on every run)',
    'cbmc 6.11.0: goto-cc, goto-instrument --dfcc, SAT back end',
    'side-car contracts in /verif/contracts (requires clauses are checked for satisfiability by an ensures(false) run)',
    'spec functions in /verif/spec/oasis_spec.h (written from the OASIS format definition)',
]
ASSUMPTIONS = [
    'stdio (fread/fwrite/putc/fseek/fputs) behaves as the assumed contracts in models/stdio_contracts.h: a regular file returns the bytes on the tape and reads short exactly at end of file',
    'streams are in file mode (OasisStream.data == NULL, cursor == NULL, no running crc32/checksum32); the in-memory CBLOCK mode of oasis_read/oasis_write is not covered',
    'tape window of 64 bytes per proof (each codec call is shown to touch at most 21 bytes from its start position)',
    'malloc never fails',
]
EXPLANATION = 'contract-based deductive verification with CBMC --dfcc on C lowered from the real C++'
