"""C19 -- number encodings used by the file formats are lossless (DESIGN.md section 5, C19)."""
LEVEL = 'proof'
OASIS = dict(tu='src/oasis.cpp', spec_headers=['spec/tape.h', 'spec/oasis_spec.h', 'spec/oasis_stream.h'],
             models=['models/stdio_contracts.h'], harness='harness/c19.c')


def G(name, **kw):
    d = dict(OASIS)
    d.update(name=name, kind='width_bounded', bound='loops bounded by the operand width: 10 groups of 7 bits; tape window 16 or 28 bytes (> the 10 resp. 21 bytes one call can touch)',
             unwind=12, timeout=1500, tier='quick', defines={'VF_TAPE_MAX': 16, 'VF_WTAPE_MAX': 16})
    d.update(kw)
    return d


RD = dict(replace=['oasis_read'], replace_extern=['fputs'])
GROUPS = [
    # byte stream primitives against the assumed stdio contracts
    G('stream_read', defines={'VF_TAPE_MAX': 40, 'VF_WTAPE_MAX': 40}, roots=['gdstk::oasis_read'], entry='h_stream_read', enforce='oasis_read',
      replace_extern=['fread', 'fputs'], kind='unbounded', bound='loop-free', unwind=None),
    G('stream_peek', roots=['gdstk::oasis_peek'], entry='h_stream_peek', enforce='oasis_peek',
      replace_extern=['fread', 'fputs', 'fseek'], kind='unbounded', bound='loop-free', unwind=None),
    G('stream_write', defines={'VF_TAPE_MAX': 40, 'VF_WTAPE_MAX': 40}, roots=['gdstk::oasis_write'], entry='h_stream_write', enforce='oasis_write',
      replace_extern=['fwrite'], kind='unbounded', bound='loop-free in file mode without signature (the crc32 chunking loop is unreachable under the requires; unwinding assertion checks that)', unwind=None, unwindset={'oasis_write.0': 1}),
    G('stream_putc', roots=['gdstk::oasis_putc'], entry='h_stream_putc', enforce='oasis_putc',
      replace_extern=['putc'], kind='unbounded', bound='loop-free', unwind=None),
    # unsigned integers
    G('uint_read', roots=['gdstk::oasis_read_unsigned_integer'], entry='h_uint_read',
      enforce='oasis_read_unsigned_integer', **RD),
    G('uint_write', roots=['gdstk::oasis_write_unsigned_integer'], entry='h_uint_write',
      enforce='oasis_write_unsigned_integer', replace=['oasis_write']),
    # signed integers and deltas
    G('int_read', roots=['gdstk::oasis_read_int_internal'], entry='h_int_read',
      enforce='oasis_read_int_internal', **RD),
    G('integer_read', drop_checks=['--signed-overflow-check'], roots=['gdstk::oasis_read_integer'], entry='h_integer_read',
      enforce='oasis_read_integer', replace=['oasis_read_int_internal']),
    G('2delta_read', drop_checks=['--signed-overflow-check'], roots=['gdstk::oasis_read_2delta'], entry='h_2delta_read',
      enforce='oasis_read_2delta', replace=['oasis_read_int_internal']),
    G('3delta_read', drop_checks=['--signed-overflow-check'], roots=['gdstk::oasis_read_3delta'], entry='h_3delta_read',
      enforce='oasis_read_3delta', replace=['oasis_read_int_internal']),
    G('gdelta_read', defines={'VF_TAPE_MAX': 28, 'VF_WTAPE_MAX': 28}, drop_checks=['--signed-overflow-check'], roots=['gdstk::oasis_read_gdelta'], entry='h_gdelta_read',
      enforce='oasis_read_gdelta', replace=['oasis_read_int_internal', 'oasis_peek']),
    G('int_write', roots=['gdstk::oasis_write_int_internal'], entry='h_int_write',
      enforce='oasis_write_int_internal', replace=['oasis_write']),
    G('integer_write', roots=['gdstk::oasis_write_integer'], entry='h_integer_write',
      enforce='oasis_write_integer', replace=['oasis_write_int_internal']),
    G('2delta_write', roots=['gdstk::oasis_write_2delta'], entry='h_2delta_write',
      enforce='oasis_write_2delta', replace=['oasis_write_int_internal'], replace_extern=['fputs']),
    G('3delta_write', roots=['gdstk::oasis_write_3delta'], entry='h_3delta_write',
      enforce='oasis_write_3delta', replace=['oasis_write_int_internal'], replace_extern=['fputs']),
    G('gdelta_write', defines={'VF_TAPE_MAX': 28, 'VF_WTAPE_MAX': 28}, roots=['gdstk::oasis_write_gdelta'], entry='h_gdelta_write',
      enforce='oasis_write_gdelta', replace=['oasis_write_int_internal']),
    # reals
    G('real_read_int', roots=['gdstk::oasis_read_real_by_type'], entry='h_real_read',
      bound='loops bounded by the operand width; tape window 24 bytes read from position 0 (the integers inside are read through oasis_read_unsigned_integer\'s contract, which is position-generic)', defines={'VF_TAPE_MAX': 24, 'VF_WTAPE_MAX': 24, 'VF_POS0_ZERO': 1, 'VF_TYPE_LO': 0, 'VF_TYPE_HI': 1},
      enforce='oasis_read_real_by_type', replace=['oasis_read_unsigned_integer', 'oasis_read', 'little_endian_swap32', 'little_endian_swap64'],
      replace_extern=['fputs']),
    G('real_read_recip', uf_fdiv=True, roots=['gdstk::oasis_read_real_by_type'], entry='h_real_read',
      bound='loops bounded by the operand width; tape window 24 bytes read from position 0 (the integers inside are read through oasis_read_unsigned_integer\'s contract, which is position-generic)', defines={'VF_TAPE_MAX': 24, 'VF_WTAPE_MAX': 24, 'VF_POS0_ZERO': 1, 'VF_TYPE_LO': 2, 'VF_TYPE_HI': 3},
      enforce='oasis_read_real_by_type', replace=['oasis_read_unsigned_integer', 'oasis_read', 'little_endian_swap32', 'little_endian_swap64'],
      replace_extern=['fputs']),
    G('real_read_ratio', uf_fdiv=True, roots=['gdstk::oasis_read_real_by_type'], entry='h_real_read',
      bound='loops bounded by the operand width; tape window 24 bytes read from position 0 (the integers inside are read through oasis_read_unsigned_integer\'s contract, which is position-generic)', defines={'VF_TAPE_MAX': 24, 'VF_WTAPE_MAX': 24, 'VF_POS0_ZERO': 1, 'VF_TYPE_LO': 4, 'VF_TYPE_HI': 5},
      enforce='oasis_read_real_by_type', replace=['oasis_read_unsigned_integer', 'oasis_read', 'little_endian_swap32', 'little_endian_swap64'],
      replace_extern=['fputs']),
    G('real_read_ieee', roots=['gdstk::oasis_read_real_by_type'], entry='h_real_read',
      bound='loops bounded by the operand width; tape window 24 bytes read from position 0 (the integers inside are read through oasis_read_unsigned_integer\'s contract, which is position-generic)', defines={'VF_TAPE_MAX': 24, 'VF_WTAPE_MAX': 24, 'VF_POS0_ZERO': 1, 'VF_TYPE_LO': 6, 'VF_TYPE_HI': 7},
      enforce='oasis_read_real_by_type', replace=['oasis_read_unsigned_integer', 'oasis_read', 'little_endian_swap32', 'little_endian_swap64'],
      replace_extern=['fputs']),
    G('real_read_bad', roots=['gdstk::oasis_read_real_by_type'], entry='h_real_read',
      bound='loops bounded by the operand width; tape window 24 bytes read from position 0 (the integers inside are read through oasis_read_unsigned_integer\'s contract, which is position-generic)', defines={'VF_TAPE_MAX': 24, 'VF_WTAPE_MAX': 24, 'VF_POS0_ZERO': 1, 'VF_TYPE_LO': 8, 'VF_TYPE_HI': 255},
      enforce='oasis_read_real_by_type', replace=['oasis_read_unsigned_integer', 'oasis_read', 'little_endian_swap32', 'little_endian_swap64'],
      replace_extern=['fputs']),
    G('real_write', uf_fdiv=True, extra_checks=['--conversion-check'], defines={'VF_TAPE_MAX': 28, 'VF_WTAPE_MAX': 28}, roots=['gdstk::oasis_write_real'], entry='h_real_write',
      enforce='oasis_write_real', replace=['oasis_write_unsigned_integer', 'oasis_write', 'oasis_putc', 'little_endian_swap64']),
    # byte order (src/utils.cpp): arrays of any length, loop invariants
] + [
    dict(name=nm, tu='src/utils.cpp', spec_headers=['spec/ghost.h', 'spec/oasis_spec.h', 'spec/gds_spec.h'], models=[],
         harness='harness/c19_endian.c', roots=['gdstk::' + fn.split('/')[0]], entry=entry, enforce=fn, kind='unbounded' if '/' not in fn else 'width_bounded',
         bound='none: loop contract (invariant + decreases), buffer length symbolic up to 2^32 elements',
         unwind=None if '/' not in fn else 14, timeout=900, tier='quick')
    for nm, fn, entry in [('swap16_small', 'big_endian_swap16/big_endian_swap16_small', 'h_swap16s'),
                          ('swap32_small', 'big_endian_swap32/big_endian_swap32_small', 'h_swap32s'),
                          ('swap64_small', 'big_endian_swap64/big_endian_swap64_small', 'h_swap64s'),
                          ('swap16', 'big_endian_swap16', 'h_swap16'), ('swap32', 'big_endian_swap32', 'h_swap32'),
                          ('swap64', 'big_endian_swap64', 'h_swap64'), ('leswap16', 'little_endian_swap16', 'h_leswap16'),
                          ('leswap32', 'little_endian_swap32', 'h_leswap32'), ('leswap64', 'little_endian_swap64', 'h_leswap64')]
] + [
    G('point_list_write', roots=['gdstk::oasis_write_point_list(gdstk::OasisStream &, Array<gdstk::IntVec2> &, bool)'], entry='h_point_list_write',
      enforce=None, replace=['oasis_putc', 'oasis_write_unsigned_integer', 'oasis_write_integer', 'oasis_write_2delta', 'oasis_write_3delta', 'oasis_write_gdelta'],
      kind='bounded', defines={'VF_TAPE_MAX': 16, 'VF_WTAPE_MAX': 128}, unwind=12, timeout=2400, tier='thorough',
      bound='every point list of up to 4 points (coordinates within 61 bits), open and closed: the in-place deltas, and at every call of a delta writer its precondition (the source asserts: the chosen list type admits the delta); decodability of the whole list is not stated'),
] + [
    dict(name='gdsii_real_decode', tu='src/gdsii.cpp', spec_headers=['spec/gdsii_real_spec.h'], models=['models/exp2_contract.h'],
         harness='harness/c19_gdsii.c', roots=['gdstk::gdsii_real_to_double'], entry='h_gdsii_decode',
         enforce='gdsii_real_to_double/gdsii_real_to_double_spec', replace_extern=['exp2'], kind='unbounded', uf_fp=True,
         bound='loop-free, all 2^64 bit patterns; exp2 and the double division/multiplication uninterpreted (field extraction and formula shape are what is proved)',
         unwind=None, timeout=600, tier='quick'),
]

TRUSTED_BASE = [
    'clang 14 AST (-ast-dump=json) of /repo/src/oasis.cpp, gdsii.cpp, utils.cpp',
    'tools/cxx2c.py lowering C++ -> C11 (regenerated from the working tree on every run)',
    'cbmc 6.11.0: goto-cc, goto-instrument --dfcc, SAT back end',
    'side-car contracts in /verif/contracts (requires clauses are checked for satisfiability by an ensures(false) run)',
    'spec functions in /verif/spec/oasis_spec.h (written from the OASIS format definition)',
]
ASSUMPTIONS = [
    'stdio (fread/fwrite/putc/fseek/fputs) behaves as the assumed contracts in models/stdio_contracts.h: a regular file returns the bytes on the tape and reads short exactly at end of file',
    'streams are in file mode (OasisStream.data == NULL, cursor == NULL, no running crc32/checksum32); the in-memory CBLOCK mode of oasis_read/oasis_write is not covered',
    'tape window of 16 bytes (single integers) or 28 bytes (g-deltas, reals) per proof, arbitrary start position inside it; each contract proves the call touches at most 10 resp. 21 bytes from its start position',
    'malloc never fails',
    'gdsii_real_to_double: exp2, double / and * are uninterpreted functions over bit patterns; gdsii_real_from_double (log2/pow/ceil) is not covered',
]
EXPLANATION = 'contract-based deductive verification with CBMC --dfcc on C lowered from the real C++'
