"""C20 -- containers, property lists and sorting behave as their abstract models."""
LEVEL = 'model_checking'
DRV = '/verif/drivers/c20_inst.cpp'


def TM(name, fn, entry, cap=4, **kw):
    d = dict(name=name, tu=DRV, spec_headers=['spec/ghost.h', 'spec/tables_spec.h'], models=[],
             harness='harness/c20_tagmap.c', roots=['gdstk::TagMap::' + fn], entry=entry, enforce='TagMap__' + fn,
             replace=['hash_uint64_t__uint64_t'], kind='bounded',
             bound='table capacity %d; histories, keys, values and the hash function are arbitrary' % cap,
             defines={'VF_CAP': cap, 'VF_CAPMAX': max(8, 2 * cap)}, unwind=max(8, 2 * cap) + 2, timeout=1800, tier='quick',
             native_include=[DRV])
    d.update(kw)
    return d


def ST(name, fn, entry, cap=4, **kw):
    d = dict(name=name, tu=DRV, spec_headers=['spec/ghost.h', 'spec/tables_spec.h'], models=[],
             harness='harness/c20_set.c', roots=['gdstk::Set<uint64_t>::' + fn], entry=entry, enforce='Set_uint64_t__' + fn,
             replace=['hash_uint64_t__uint64_t'], kind='bounded',
             bound='table capacity %d; histories, values and the hash function are arbitrary' % cap,
             defines={'VF_CAP': cap, 'VF_CAPMAX': max(8, 2 * cap), 'VF_NO_TAGMAP': 1, 'VF_WITH_SET': 1}, unwind=max(8, 2 * cap) + 2,
             timeout=1800, tier='quick', native_include=[DRV])
    d.update(kw)
    return d


def MP(name, fn, entry, cap=4, **kw):
    d = dict(name=name, tu=DRV, spec_headers=['spec/ghost.h', 'spec/tables_spec.h'], models=[],
             harness='harness/c20_map.c', roots=['gdstk::Map<uint64_t>::' + fn], entry=entry, enforce='Map_uint64_t__' + fn,
             replace=['hash__char_p'], kind='bounded',
             bound='table capacity %d, one-letter string keys; histories, letters, values and the hash function are arbitrary' % cap,
             defines={'VF_CAP': cap, 'VF_CAPMAX': max(8, 2 * cap), 'VF_NO_TAGMAP': 1, 'VF_WITH_MAP': 1}, unwind=max(8, 2 * cap) + 2,
             timeout=1800, tier='quick', native_include=[DRV])
    d.update(kw)
    return d


GROUPS = [
    MP('map_get_slot', 'get_slot', 'h_mp_get_slot'),
    MP('map_get', 'get', 'h_mp_get'),
    MP('map_has_key', 'has_key', 'h_mp_has'),
    MP('map_del', 'del', 'h_mp_del', solver='cadical', tier='thorough', timeout=3000),   # 19 min with cadical, timeout with minisat
    ST('set_get_slot', 'get_slot', 'h_st_get_slot', solver='cadical'),
    ST('set_add_nogrow', 'add', 'h_st_add_nogrow', enforce='Set_uint64_t__add/Set_uint64_t__add_nogrow'),
    ST('set_del', 'del', 'h_st_del'),
    ST('set_has_value', 'has_value', 'h_st_has', solver='cadical'),
    TM('tagmap_get_slot', 'get_slot', 'h_tm_get_slot'),
    # set() with growth: the general contract (TagMap__set in contracts/tagmap.ct) and resize() did not
    # leave CBMC's propositional reduction within 30 min / 24 GB (see DESIGN.md, C20); they are NOT claimed.
    # TM('tagmap_set', 'set', 'h_tm_set', replace=['hash_uint64_t__uint64_t', 'TagMap__resize', 'TagMap__del']),   (also tried with cadical: OOM before the solver)
    TM('tagmap_set_nogrow', 'set', 'h_tm_set_nogrow', enforce='TagMap__set/TagMap__set_nogrow'),
    # TM('tagmap_resize', 'resize', 'h_tm_resize', replace=['TagMap__set/TagMap__set_nogrow']),   (cadical: timeout 30 min)
    TM('tagmap_del', 'del', 'h_tm_del'),
    TM('tagmap_get', 'get', 'h_tm_get'),
    TM('tagmap_has_key', 'has_key', 'h_tm_has'),
    # NULL + 0 is well defined in C++ (the source language) but flagged by CBMC's C pointer-overflow check
    TM('tagmap_next', 'next', 'h_tm_next', replace=[], drop_checks=['--pointer-overflow-check']),
] + [
    dict(name=nm, tu=DRV, spec_headers=['spec/ghost.h', 'spec/sort_spec.h'], models=[], harness='harness/c20_sort.c',
         roots=roots, entry=entry, enforce=fn, kind='bounded',
         bound='arrays of up to %d doubles without NaN' % n + '  (every content), default ordering; loops unwound with unwinding assertions',
         defines={'VF_SORTN': n}, unwind=n + 3, timeout=1500, tier='quick', native_include=[DRV])
    for nm, roots, entry, fn, n in [
        ('heap_sort', ['flat:heap_sort_double', 'flat:default_sorted_double'], 'h_heap_sort', 'heap_sort_double', 4),
        ('insertion_sort', ['flat:insertion_sort_double', 'flat:default_sorted_double'], 'h_insertion_sort', 'insertion_sort_double', 6),
        # gdstk::sort (intro_sort recursion) timed out (25 min) even for <= 4 elements; not claimed
    ]
] + [
    dict(name=nm, tu='src/property.cpp', spec_headers=[], models=['models/alloc_models.h', 'models/gdstk_models.h'], harness='harness/c20_plist.c', roots=roots,
         entry=entry, enforce=None, kind='bounded', leak_check=True,
         bound='lists of up to 3 properties (every combination of two names), one operation; all loops unwound with unwinding assertions; plain assertions on the real functions (no contract replacement)',
         defines={'PL_MAX': 3}, unwind=6, timeout=1200, tier='quick')
    for nm, roots, entry in [
        ('plist_remove', ['gdstk::remove_property', 'gdstk::properties_clear'], 'h_remove_property'),
        ('plist_get', ['gdstk::get_property', 'gdstk::properties_clear'], 'h_get_property'),
        # plist_set (set_property): harness exists (h_set_property) but fails spuriously under CBMC (native run passes); not claimed
    ]
]
TRUSTED_BASE = [
    'clang 14 AST of drivers/c20_inst.cpp (includes only real gdstk headers + explicit template instantiations)',
    'tools/cxx2c.py lowering', 'cbmc 6.11.0 (goto-cc, goto-instrument --dfcc, SAT)',
    'side-car contracts; spec functions in spec/tables_spec.h',
]
ASSUMPTIONS = [
    'hash() is replaced by an uninterpreted function of its argument (assumed contract): the proofs hold for every hash function',
    'tables are explored at a bounded capacity (stated per group); the representation invariant and the code are capacity-generic',
    'malloc/calloc never fail',
]
EXPLANATION = 'inductive-invariant check per operation with CBMC contracts; bounded in table capacity only'
