#!/bin/bash
# usage: confirm_seed.sh <seed dir with patch.diff demo.cpp meta.json> -> prints CONFIRMED or reason
# Confirms independently, in a scratch worktree of /repo: (1) clean tree: demo passes; (2) with the
# patch: builds, the 18 baseline tests pass, the demo fails.  Removes the worktree afterwards.
set -u
SD=$(realpath "$1"); NAME=$(basename "$SD")
WT=$(mktemp -d /tmp/confirm_XXXXXX)
git -C /repo worktree add -q --detach "$WT" HEAD || { echo "$NAME: worktree failed"; exit 2; }
cleanup() { git -C /repo worktree remove --force "$WT" >/dev/null 2>&1; rm -rf "$WT"; }
trap cleanup EXIT
build() { cmake -G Ninja -B "$WT/_build" -S "$WT" -DCMAKE_BUILD_TYPE=RelWithDebInfo >/dev/null 2>&1 && cmake --build "$WT/_build" --target all examples >/dev/null 2>&1; }
demo() { sed "s#/tmp/seed_C[0-9]*#$WT#g" "$SD/demo.cpp" > "$WT/demo.cpp"; g++ -std=c++17 -I"$WT/include" -I"$WT/external" -I"$WT/src" "$WT/demo.cpp" "$WT/_build/src/libgdstk.a" "$WT/_build/external/libclipper.a" -lz -lqhull_r -lm -o "$WT/demo" 2>"$WT/demo.err" || return 99; (cd "$WT" && timeout 120 ./demo >"$WT/demo.out" 2>&1); }
build || { echo "$NAME: clean build failed"; exit 2; }
demo; rc0=$?
git -C "$WT" apply "$SD/patch.diff" || { echo "$NAME: patch does not apply"; exit 2; }
build || { echo "$NAME: build with patch failed"; exit 2; }
tests=$(ctest --test-dir "$WT/_build" -j8 --timeout 900 2>&1 | grep -c "Passed")
demo; rc1=$?
if [ "$rc0" = 0 ] && [ "$tests" = 18 ] && [ "$rc1" != 0 ] && [ "$rc1" != 99 ]; then echo "$NAME: CONFIRMED clean_demo=$rc0 tests_passed=$tests mutant_demo=$rc1"; else echo "$NAME: NOT-CONFIRMED clean_demo=$rc0 tests_passed=$tests mutant_demo=$rc1 $(head -c 300 $WT/demo.err 2>/dev/null)"; fi
