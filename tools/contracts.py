"""Side-car contracts (DESIGN.md 3.1): plain text, keyed by flat function name and loop ordinal.

File format (contracts/*.ct), one or more blocks:

    function <flat name>
    requires  <C expr>                 (repeatable; conjunction)
    assigns   <targets>                (repeatable; comma lists allowed)
    ensures   <C expr>                 (repeatable)
    loop <n> invariant <expr>
    loop <n> assigns <targets>
    loop <n> decreases <expr>
    ghost entry <stmt>                 (ghost code: may only assign G_* / GW_* / GK* names)
    ghost loop <n> begin <stmt>
    ghost loop <n> end <stmt>
    # comment

A line that starts with whitespace continues the previous clause.
"""
import re, os, glob


class ContractError(Exception):
    pass


class Contract:
    def __init__(self, name, path):
        self.name = name
        self.path = path
        self.requires = []
        self.assigns = []
        self.ensures = []
        self.frees = []
        self.loops = {}       # n -> dict(invariant=[], assigns=[], decreases=None)
        self.ghost_entry = []
        self.ghost_loop = {}  # (n, 'begin'|'end') -> [stmts]
        self.has_assigns = False
        self.lets = []        # textual abbreviations: let NAME = text
        self.cbmc_only = set()   # (kind, index) of clauses that are not evaluated natively (ghost state)
        self.target = name

    def loop(self, n):
        return self.loops.setdefault(n, {'invariant': [], 'assigns': [], 'decreases': None, 'has_assigns': False})


GHOST_LHS = re.compile(r'^(G_|GW_|GK)[A-Za-z0-9_]*$')


def check_ghost(stmt, where):
    """ghost statements may only assign ghost variables and may not call anything except
    whitelisted pure spec functions (names starting with spec_ or vf_)"""
    s = stmt.strip()
    # every assignment target must be a ghost name
    for m in re.finditer(r'([A-Za-z_][A-Za-z0-9_]*)(\s*\[[^\]]*\])?\s*(=|\+=|-=|\|=|\+\+|--)(?!=)', s):
        if not GHOST_LHS.match(m.group(1)):
            raise ContractError('%s: ghost statement assigns non-ghost name %r: %s' % (where, m.group(1), s))
    for m in re.finditer(r'(\+\+|--)\s*([A-Za-z_][A-Za-z0-9_]*)', s):
        if not GHOST_LHS.match(m.group(2)):
            raise ContractError('%s: ghost statement assigns non-ghost name %r' % (where, m.group(2)))
    for m in re.finditer(r'([A-Za-z_][A-Za-z0-9_]*)\s*\(', s):
        f = m.group(1)
        if f in ('if', 'else', 'sizeof'):
            continue
        if not (f.startswith('spec_') or f.startswith('vf_') or f.startswith('__CPROVER_') or re.match(r'^(VF_F[A-Z]+|[A-Z]_[A-Z]+|DEQ|T_REFL)$', f)):
            raise ContractError('%s: ghost statement calls %r' % (where, f))
    if '*' in re.sub(r'\*\s*[0-9(A-Za-z_]', '', s) and False:
        pass


def parse_file(path):
    out = {}
    cur = None
    file_lets = []
    last = None   # (list, index) of the clause being continued
    with open(path) as f:
        lines = f.read().split('\n')
    for ln, raw in enumerate(lines, 1):
        if not raw.strip() or raw.strip().startswith('#'):
            continue
        if raw[0] in ' \t' and last is not None:
            lst, idx = last
            extra = raw.strip()
            for _pass in range(8):
                for nm, txt in file_lets + cur.lets:
                    extra = re.sub(r'\b%s\b' % nm, (lambda m, t=txt: t if ';' in t else '(' + t + ')'), extra)
            lst[idx] = lst[idx] + ' ' + extra
            continue
        line = raw.strip()
        where = '%s:%d' % (path, ln)
        m = re.match(r'^function\s+(\S+)(?:\s+for\s+(\S+))?$', line)
        if m:
            cur = Contract(m.group(1), path)
            cur.target = m.group(2) or m.group(1)   # a named contract variant for another function
            if cur.name in out:
                raise ContractError('%s: duplicate contract for %s' % (where, cur.name))
            out[cur.name] = cur
            last = None
            continue
        m = re.match(r'^let\s+([A-Za-z_][A-Za-z0-9_]*)\s*=\s*(.*)$', line)
        if m:
            (cur.lets if cur is not None else file_lets).append((m.group(1), m.group(2)))
            last = None
            continue
        if cur is None:
            raise ContractError('%s: clause before "function"' % where)
        for _pass in range(8):
            for nm, txt in file_lets + cur.lets:
                line = re.sub(r'\b%s\b' % nm, (lambda m, t=txt: t if ';' in t else '(' + t + ')'), line)
        m = re.match(r'^(requires|ensures|assigns|frees)(!?)(?=\s|$)\s*(.*)$', line)
        if m:
            kw, bang, rest = m.groups()
            if bang:
                cur.cbmc_only.add((kw, len(getattr(cur, kw))))
            lst = getattr(cur, kw)
            if kw == 'assigns':
                cur.has_assigns = True
                if not rest:
                    last = None
                    continue
            lst.append(rest)
            last = (lst, len(lst) - 1)
            continue
        m = re.match(r'^loop\s+(\d+)\s+(invariant|assigns|decreases)\b\s*(.*)$', line)
        if m:
            n, kw, rest = int(m.group(1)), m.group(2), m.group(3)
            L = cur.loop(n)
            if kw == 'decreases':
                L['decreases'] = rest
                holder = [rest]
                last = None
            elif kw == 'assigns':
                L['has_assigns'] = True
                if rest:
                    L['assigns'].append(rest)
                    last = (L['assigns'], len(L['assigns']) - 1)
                else:
                    last = None
            else:
                L['invariant'].append(rest)
                last = (L['invariant'], len(L['invariant']) - 1)
            continue
        m = re.match(r'^loop\s+(\d+)\s+anchor\s+([A-Za-z_][A-Za-z0-9_]*)\s*=\s*(.*)$', line)
        if m:
            cur.loop(int(m.group(1))).setdefault('anchors', []).append((m.group(2), m.group(3)))
            last = None
            continue
        m = re.match(r'^ghost\s+entry\s+(.*)$', line)
        if m:
            check_ghost(m.group(1), where)
            cur.ghost_entry.append(m.group(1))
            last = (cur.ghost_entry, len(cur.ghost_entry) - 1)
            continue
        m = re.match(r'^ghost\s+loop\s+(\d+)\s+(begin|end)\s+(.*)$', line)
        if m:
            check_ghost(m.group(3), where)
            lst = cur.ghost_loop.setdefault((int(m.group(1)), m.group(2)), [])
            lst.append(m.group(3))
            last = (lst, len(lst) - 1)
            continue
        raise ContractError('%s: cannot parse %r' % (where, line))
    return out


def load_dir(d):
    allc = {}
    for p in sorted(glob.glob(os.path.join(d, '*.ct'))):
        for k, v in parse_file(p).items():
            if k in allc:
                raise ContractError('duplicate contract for %s in %s and %s' % (k, allc[k].path, p))
            allc[k] = v
    return allc


def ghost_targets(stmts):
    names = []
    for st in stmts:
        for m in re.finditer(r'\b((?:G_|GW_)[A-Za-z0-9_]*)\s*(\[[^\]]*\])?\s*(=|\+=|-=|\|=|\+\+|--)(?!=)', st):
            if m.group(1) not in names:
                names.append(m.group(1))
    return names


def fn_clauses(c, extra_ensures=()):
    out = []
    for r in c.requires:
        out.append('__CPROVER_requires(%s)' % r)
    if c.has_assigns:
        gh = list(c.ghost_entry)
        for v in c.ghost_loop.values():
            gh += v
        gt = [g for g in ghost_targets(gh) if g not in c.assigns]
        lines = list(c.assigns) + ([', '.join(gt)] if gt else [])
        if not lines:
            out.append('__CPROVER_assigns()')
        for a in lines:
            out.append('__CPROVER_assigns(%s)' % a)
    for fr in c.frees:
        out.append('__CPROVER_frees(%s)' % fr)
    for e in list(c.ensures) + list(extra_ensures):
        out.append('__CPROVER_ensures(%s)' % e)
    return '\n'.join(out)


def loop_clauses(L, ghost=()):
    out = []
    if L['has_assigns']:
        gt = [g for g in ghost_targets(ghost) if g not in L['assigns']]
        lines = list(L['assigns']) + ([', '.join(gt)] if gt else [])
        uncond = [a for a in lines if ':' not in a]
        cond = [a for a in lines if ':' in a]
        groups = ([', '.join(uncond)] if uncond else []) + cond
        out.append('__CPROVER_assigns(%s)' % '; '.join(groups))
    for i in L['invariant']:
        out.append('__CPROVER_loop_invariant(%s)' % i)
    if L['decreases']:
        out.append('__CPROVER_decreases(%s)' % L['decreases'])
    return '\n'.join(out)


def splice(flat, sig, body, contract, with_fn, with_loops, nloops, extra_ensures=(), ghost_only=False):
    """returns the C text of one function with its contract spliced in.
    with_fn: attach requires/assigns/ensures; with_loops: attach loop contracts + ghost code."""
    c = contract
    text_sig = sig
    if c is not None and with_fn:
        text_sig = sig + '\n' + fn_clauses(c, extra_ensures)
    if body is None:
        return text_sig + ';'
    if c is not None and with_loops:
        for n in c.loops:
            if n >= nloops:
                raise ContractError('%s: contract names loop %d but the lowered function has %d loops'
                                    % (flat, n, nloops))
        for (n, _), _ in c.ghost_loop.items():
            if n >= nloops:
                raise ContractError('%s: ghost code for loop %d but the lowered function has %d loops'
                                    % (flat, n, nloops))

        def rep_loop(m):
            n = int(m.group(2))
            if n in c.loops and not ghost_only:
                gh = c.ghost_loop.get((n, 'begin'), []) + c.ghost_loop.get((n, 'end'), [])
                return loop_clauses(c.loops[n], gh)
            return m.group(0)
        body = re.sub(r'/\*@LOOP (\S+) (\d+)@\*/', rep_loop, body)

        def rep_lb(m):
            kind = 'begin' if m.group(1) == 'LOOPBEGIN' else 'end'
            n = int(m.group(3))
            st = list(c.ghost_loop.get((n, kind), []))
            if kind == 'begin' and n in c.loops and not ghost_only:
                # anchors: a proven-identity re-assignment of a pointer the loop havocs (keeps CBMC's
                # points-to sets small); the assertion makes the inserted assignment a no-op
                for var, ex in c.loops[n].get('anchors', []):
                    st.insert(0, '__CPROVER_assert(%s == (%s), "anchor %s is the identity"); %s = (%s);' % (var, ex, var, var, ex))
            if st:
                return ' '.join(st)
            return m.group(0)
        body = re.sub(r'/\*@(LOOPBEGIN|LOOPEND) (\S+) (\d+)@\*/', rep_lb, body)
        if c.ghost_entry:
            body = body.replace('/*@ENTRY %s@*/' % flat, ' '.join(c.ghost_entry), 1)
    return text_sig + '\n' + body


def desugar_implies(e):
    """rewrite CBMC's `A ==> B` (lowest precedence, right associative) into C: (!(A) || (B))"""
    # first rewrite inside every parenthesised group
    out = ''
    i = 0
    n = len(e)
    while i < n:
        if e[i] == '(':
            depth = 1
            j = i + 1
            while j < n and depth:
                if e[j] == '(':
                    depth += 1
                elif e[j] == ')':
                    depth -= 1
                j += 1
            out += '(' + desugar_implies(e[i + 1:j - 1]) + ')'
            i = j
        else:
            out += e[i]
            i += 1
    # now split the top level on ==> (parentheses are opaque); commas separate arguments
    def split_top(s, sep):
        parts = []
        depth = 0
        cur = ''
        k = 0
        while k < len(s):
            ch = s[k]
            if ch == '(':
                depth += 1
            elif ch == ')':
                depth -= 1
            if depth == 0 and s.startswith(sep, k):
                parts.append(cur)
                cur = ''
                k += len(sep)
                continue
            cur += ch
            k += 1
        parts.append(cur)
        return parts
    args = split_top(out, ',')
    res = []
    for a in args:
        ps = split_top(a, '==>')
        r = ps[-1]
        for pth in reversed(ps[:-1]):
            r = '(!(%s) || (%s))' % (pth.strip(), r.strip())
        res.append(r)
    return ','.join(res)


def native_macros(c, params, fname=None):
    cname = fname or c.name
    """C macros evaluating the contract natively: VF_PRE_<f>, VF_SNAP_<f>, VF_POST_<f>(RET).
    __CPROVER_old(e) -> snapshot variable captured by VF_SNAP; __CPROVER_return_value -> RET."""
    olds = []

    def find_olds(expr):
        res = ''
        i = 0
        key = '__CPROVER_old('
        while True:
            j = expr.find(key, i)
            if j < 0:
                res += expr[i:]
                break
            res += expr[i:j]
            k = j + len(key)
            depth = 1
            while depth:
                if expr[k] == '(':
                    depth += 1
                elif expr[k] == ')':
                    depth -= 1
                k += 1
            inner = expr[j + len(key):k - 1]
            if inner not in olds:
                olds.append(inner)
            res += '(VF_OLD_%s_%d)' % (cname, olds.index(inner))
            i = k
        return res
    posts = [desugar_implies(find_olds(e)) if ('ensures', i) not in c.cbmc_only else '1 /* cbmc-only clause */' for i, e in enumerate(c.ensures)]
    posts = [p.replace('__CPROVER_return_value', '(RET)') for p in posts]
    pre = ' && '.join('(%s)' % desugar_implies(r) for i, r in enumerate(c.requires) if ('requires', i) not in c.cbmc_only) or '1'
    pre = re.sub(r'__CPROVER_(r|w)_ok\(', r'VF_\1_OK_N(', pre).replace('VF_r_OK_N', 'VF_R_OK').replace('VF_w_OK_N', 'VF_W_OK')
    lines = []
    lines.append('#define VF_PRE_%s (%s)' % (cname, pre))
    snap = ' '.join('__typeof__(%s) VF_OLD_%s_%d = (%s);' % (o, cname, i, o) for i, o in enumerate(olds))
    snap += ' ' + ' '.join(c.ghost_entry)
    lines.append('#define VF_SNAP_%s %s' % (cname, snap))
    post_items = ' '.join('VF_ASSERT(%s, "%s.postcondition.%d");' % (p, c.name, i + 1) for i, p in enumerate(posts))
    post_items = re.sub(r'__CPROVER_(r|w)_ok\(', lambda m: 'VF_%s_OK(' % m.group(1).upper(), post_items)
    lines.append('#define VF_POST_%s(RET) do { %s } while (0)' % (cname, post_items))
    return '\n'.join(lines)
