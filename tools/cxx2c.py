#!/usr/bin/env python3
"""cxx2c -- mechanical lowering of selected gdstk C++ functions to C11 from clang's typed AST.

Used on every run of every check: the C that CBMC verifies is regenerated from /repo's working
tree, never cached.  One rule per AST node kind; a node kind, cast kind or type form that has no
rule raises LoweringError, which the caller reports as exit 2 ("extraction break"), never as a
violation.  See DESIGN.md section 2 for what the lowering keeps and drops.

API:  L = Lowering(ast_json_path_or_obj); L.request(['gdstk::oasis_read_unsigned_integer', ...]);
      text = L.emit(contracts)   # contracts: dict flatname -> Contract (see contracts.py)
"""
import json, re, sys, os, subprocess, hashlib


class LoweringError(Exception):
    pass


STD_TYPES = {
    'uint8_t', 'uint16_t', 'uint32_t', 'uint64_t', 'int8_t', 'int16_t', 'int32_t', 'int64_t',
    'size_t', 'FILE', 'time_t', 'tm', 'ssize_t', 'off_t', 'ptrdiff_t', 'uintptr_t', 'intptr_t',
    'va_list', 'timespec',
}
BUILTIN_CANON = {
    'unsigned long': 'uint64_t', 'long': 'int64_t', 'unsigned char': 'uint8_t',
    'unsigned int': 'uint32_t', 'unsigned short': 'uint16_t', 'short': 'int16_t',
    'signed char': 'int8_t', 'unsigned long long': 'unsigned long long', 'long long': 'long long',
    'int': 'int', 'char': 'char', 'double': 'double', 'float': 'float', 'bool': 'bool',
    'void': 'void', 'long double': 'long double', 'unsigned': 'uint32_t',
}
BUILTIN_WORDS = {'unsigned', 'signed', 'long', 'short', 'int', 'char', 'double', 'float', 'bool',
                 'void', '_Bool'}
LIBC_KNOWN = {
    'malloc', 'calloc', 'realloc', 'free', 'memcpy', 'memmove', 'memset', 'memcmp', 'strlen', 'strcmp',
    'strncmp', 'strcpy', 'strncpy', 'strchr', 'fopen', 'fclose', 'fread', 'fwrite', 'fputs', 'fputc', 'putc',
    'fprintf', 'printf', 'snprintf', 'sprintf', 'fseek', 'ftell', 'feof', 'ferror', 'fflush', 'putchar', 'puts',
    'trunc', 'ceil', 'floor', 'fabs', 'sqrt', 'lround', 'llround', 'round', 'exp2', 'pow', 'log2', 'log',
    'exp', 'fmod', 'cos', 'sin', 'tan', 'acos', 'asin', 'atan', 'atan2', 'hypot', 'cbrt', 'isnan', 'isinf',
    'abs', 'labs', 'llabs', 'qsort', 'time', 'localtime', 'localtime_r', 'gmtime', 'strtod', 'strtol',
    'strtoul', 'strtoull', 'strtoll', 'getc', 'fgetc', 'ungetc', 'rewind', 'exit', 'abort', 'ldexp', 'frexp',
    'log10', 'fmin', 'fmax', 'copysign', 'modf', 'rint', 'nearbyint', 'lrint', 'llrint',
}
OPNAMES = {
    '[]': 'op_index', '+=': 'op_addeq', '-=': 'op_subeq', '*=': 'op_muleq', '/=': 'op_diveq',
    '+': 'op_add', '-': 'op_sub', '*': 'op_mul', '/': 'op_div', '==': 'op_eq', '!=': 'op_ne',
    '<': 'op_lt', '>': 'op_gt', '<=': 'op_le', '>=': 'op_ge', '()': 'op_call', '=': 'op_assign',
}

# ---------------------------------------------------------------------------------------------
# type strings -> type trees


class T:
    """kind: base(name, quals) | ptr(to, const) | ref(to) | arr(of, n) | fn(ret, params, variadic)"""

    def __init__(self, kind, **kw):
        self.kind = kind
        self.__dict__.update(kw)

    def __repr__(self):
        return 'T(%s,%s)' % (self.kind, {k: v for k, v in self.__dict__.items() if k != 'kind'})


def tokenize_type(s):
    toks = []
    i = 0
    n = len(s)
    while i < n:
        c = s[i]
        if c.isspace():
            i += 1
        elif c.isalpha() or c == '_' or c == ':':
            j = i
            while j < n and (s[j].isalnum() or s[j] in '_:'):
                j += 1
            # template args
            if j < n and s[j] == '<':
                depth = 0
                k = j
                while k < n:
                    if s[k] == '<':
                        depth += 1
                    elif s[k] == '>':
                        depth -= 1
                        if depth == 0:
                            break
                    k += 1
                j = k + 1
                # trailing ::member after template
                while j < n and (s[j].isalnum() or s[j] in '_:'):
                    j += 1
            toks.append(s[i:j])
            i = j
        elif c == '&' and s[i:i + 2] == '&&':
            toks.append('&&')
            i += 2
        elif c in '*&()[],':
            toks.append(c)
            i += 1
        elif c.isdigit():
            j = i
            while j < n and s[j].isdigit():
                j += 1
            toks.append(s[i:j])
            i = j
        elif s[i:i + 3] == '...':
            toks.append('...')
            i += 3
        else:
            raise LoweringError('type tokenizer: unexpected %r in %r' % (c, s))
    return toks


def split_template_args(s):
    # s = inside of <...>
    out = []
    depth = 0
    cur = ''
    for ch in s:
        if ch in '<(':
            depth += 1
        elif ch in '>)':
            depth -= 1
        if ch == ',' and depth == 0:
            out.append(cur.strip())
            cur = ''
        else:
            cur += ch
    if cur.strip():
        out.append(cur.strip())
    return out


class TypeParser:
    def __init__(self, s):
        s = re.sub(r'\s*noexcept(\([^()]*\))?', '', s)
        s = re.sub(r'\s*__attribute__\(\(.*?\)\)', '', s)
        self.s = s
        self.toks = tokenize_type(s)
        self.i = 0

    def peek(self):
        return self.toks[self.i] if self.i < len(self.toks) else None

    def next(self):
        t = self.peek()
        self.i += 1
        return t

    def parse(self):
        t = self.parse_type()
        if self.peek() is not None:
            raise LoweringError('type parser: trailing %r in %r' % (self.toks[self.i:], self.s))
        return t

    def parse_type(self):
        # specifiers
        words = []
        quals = set()
        while self.peek() is not None and self.peek() not in ('*', '&', '&&', '(', '[', ',', ')', '...'):
            w = self.next()
            if w in ('const', 'volatile', 'restrict', '__restrict'):
                quals.add(w)
            elif w in ('struct', 'enum', 'class', 'union', 'typename'):
                continue
            else:
                words.append(w)
        if not words:
            raise LoweringError('type parser: no base type in %r' % self.s)
        base = T('base', name=' '.join(words), const='const' in quals)
        return self.parse_abstract_declarator(base)

    def parse_abstract_declarator(self, base):
        # pointer operators
        ops = []
        while self.peek() in ('*', '&', '&&'):
            op = self.next()
            cq = False
            while self.peek() in ('const', 'volatile', 'restrict', '__restrict'):
                if self.next() == 'const':
                    cq = True
            ops.append((op, cq))
        for op, cq in ops:
            if op == '*':
                base = T('ptr', to=base, const=cq)
            elif op == '&':
                base = T('ref', to=base)
            else:
                base = T('rref', to=base)
        # direct abstract declarator
        inner_toks = None
        if self.peek() == '(':
            # either grouping "( * ... )" or a parameter list
            nxt = self.toks[self.i + 1] if self.i + 1 < len(self.toks) else None
            if nxt in ('*', '&', '&&'):
                # grouping: collect tokens to matching ')'
                depth = 0
                j = self.i
                while j < len(self.toks):
                    if self.toks[j] == '(':
                        depth += 1
                    elif self.toks[j] == ')':
                        depth -= 1
                        if depth == 0:
                            break
                    j += 1
                inner_toks = self.toks[self.i + 1:j]
                self.i = j + 1
        # suffixes
        suffixes = []
        while self.peek() in ('(', '['):
            if self.peek() == '[':
                self.next()
                n = None
                if self.peek() != ']':
                    n = int(self.next())
                if self.next() != ']':
                    raise LoweringError('type parser: bad array in %r' % self.s)
                suffixes.append(('arr', n))
            else:
                self.next()
                params = []
                variadic = False
                if self.peek() == ')':
                    self.next()
                else:
                    while True:
                        if self.peek() == '...':
                            self.next()
                            variadic = True
                        else:
                            params.append(self.parse_type())
                        t = self.next()
                        if t == ')':
                            break
                        if t != ',':
                            raise LoweringError('type parser: bad params in %r' % self.s)
                while self.peek() in ('const', 'noexcept', 'volatile'):
                    self.next()
                if len(params) == 1 and params[0].kind == 'base' and params[0].name == 'void':
                    params = []
                suffixes.append(('fn', params, variadic))
        # apply suffixes right-to-left: T [2][3] is array 2 of array 3 of T
        for suf in reversed(suffixes):
            if suf[0] == 'arr':
                base = T('arr', of=base, n=suf[1])
            else:
                base = T('fn', ret=base, params=suf[1], variadic=suf[2])
        if inner_toks is not None:
            sub = TypeParser.__new__(TypeParser)
            sub.s = self.s
            sub.toks = inner_toks
            sub.i = 0
            base = sub.parse_abstract_declarator(base)
            if sub.peek() is not None:
                raise LoweringError('type parser: trailing inner %r in %r' % (inner_toks, self.s))
        return base


def san(s):
    return re.sub(r'[^A-Za-z0-9_]', '_', s)


# ---------------------------------------------------------------------------------------------


class Lowering:
    def __init__(self, ast, src_path=None):
        if isinstance(ast, str):
            def hook(d):
                d.pop('loc', None)
                d.pop('range', None)
                return d
            with open(ast) as f:
                ast = json.load(f, object_hook=hook)
        self.ast = ast
        self.src_path = src_path
        self.by_id = {}
        self.parent_scope = {}   # decl id -> tuple of scope names
        self.records = {}        # flat record name -> decl node (definition)
        self.record_by_id = {}
        self.enums = {}          # flat enum name -> decl
        self.typedefs = {}       # name -> qualType string of the underlying type
        self.funcs_by_mangled = {}   # mangled -> list of decls
        self.func_qname = {}     # decl id -> qualified name tuple
        self.qname_mangled = {}  # qualified name string -> set(mangled)
        self.global_vars = {}    # id -> decl
        self.labels = {}
        self._index(ast, ())
        self.needed_funcs = []       # list of mangled names in request order (definitions)
        self.needed_set = set()
        self.proto_only = set()      # mangled names emitted as prototypes only
        self.needed_records = []
        self.needed_records_set = set()
        self.needed_enums = []
        self.needed_globals = []
        self.loop_counts = {}        # flat function name -> number of loops
        self.extern_calls = set()    # libc etc. names called
        self.extern_protos = {}      # non-libc extern C functions: name -> decl (prototype emitted)
        self.flat_of_mangled = {}
        self.stubs = set()           # flat names the caller wants as prototype only
        self.cur_fn = None
        self.fdiv_macro = False
        self.fp_uf = False

    def fork(self):
        """a lowering with fresh request state that shares this one's (read-only) index"""
        import copy
        o = copy.copy(self)
        o.needed_funcs = []
        o.needed_set = set()
        o.proto_only = set()
        o.needed_records = []
        o.needed_records_set = set()
        o.needed_enums = []
        o.needed_globals = []
        o.loop_counts = {}
        o.extern_calls = set()
        o.extern_protos = {}
        o.flat_of_mangled = {}
        o.cur_fn = None
        return o

    # ---------------------------------------------------------------- indexing
    def _index(self, n, scope):
        k = n.get('kind')
        if 'id' in n:
            self.by_id[n['id']] = n
        name = n.get('name')
        newscope = scope
        if k == 'NamespaceDecl':
            newscope = scope + ((name or '(anon)'),)
        elif k in ('CXXRecordDecl', 'ClassTemplateSpecializationDecl', 'RecordDecl'):
            if k == 'ClassTemplateSpecializationDecl':
                args = [a for a in n.get('inner', []) if a.get('kind') == 'TemplateArgument']
                astr = ','.join(self._targ_str(a) for a in args)
                nm = '%s<%s>' % (name, astr)
            else:
                nm = name or ''
            n['_scope'] = scope
            n['_qname'] = nm
            newscope = scope + (nm,)
            if n.get('completeDefinition') and name:
                pass
        elif k == 'EnumDecl':
            n['_scope'] = scope
            newscope = scope + (name or '',)
        elif k == 'TypedefDecl' or k == 'TypeAliasDecl':
            if name and name not in STD_TYPES:
                ty = n.get('type', {})
                # only keep the first definition; prefer gdstk ones
                key = name
                if key not in self.typedefs or (scope and scope[0] == 'gdstk'):
                    self.typedefs[key] = ty.get('qualType')
        elif k in ('FunctionDecl', 'CXXMethodDecl', 'CXXConstructorDecl', 'CXXDestructorDecl',
                   'CXXConversionDecl'):
            n['_scope'] = scope
            pid = n.get('parentDeclContextId')
            if pid and pid in self.by_id and '_qname' in self.by_id[pid]:
                # out-of-line member definition: the semantic parent is the class
                rec = self.by_id[pid]
                n['_scope'] = rec.get('_scope', ()) + (rec['_qname'],)
            m = n.get('mangledName')
            if m:
                self.funcs_by_mangled.setdefault(m, []).append(n)
            # do not descend into bodies for indexing scope purposes, but we need ids of params
            for c in n.get('inner', []):
                self._index_body(c)
            return
        elif k == 'VarDecl':
            n['_scope'] = scope
            self.global_vars[n['id']] = n
            for c in n.get('inner', []):
                self._index_body(c)
            return
        elif k in ('ClassTemplateDecl', 'FunctionTemplateDecl'):
            # children: template params, the pattern (skip), specializations
            for c in n.get('inner', []):
                ck = c.get('kind')
                if ck == 'ClassTemplateSpecializationDecl':
                    self._index(c, scope)
                elif ck in ('FunctionDecl', 'CXXMethodDecl') and k == 'FunctionTemplateDecl':
                    # first FunctionDecl child is the pattern (has dependent types); instantiations
                    # carry TemplateArgument children
                    if any(x.get('kind') == 'TemplateArgument' for x in c.get('inner', [])):
                        self._index(c, scope)
            return
        elif k == 'LinkageSpecDecl':
            pass
        for c in n.get('inner', []):
            self._index(c, newscope)

    def _index_body(self, n):
        if not isinstance(n, dict):
            return
        if 'id' in n:
            self.by_id[n['id']] = n
        for c in n.get('inner', []):
            self._index_body(c)

    def _targ_str(self, a):
        if 'type' in a:
            return a['type']['qualType']
        if 'value' in a:
            return str(a['value'])
        return '?unsupported?'

    # ---------------------------------------------------------------- naming
    def qualified(self, decl):
        return '::'.join(decl.get('_scope', ()) + (decl.get('name') or '',))

    def flat_record_name(self, qname):
        """qname like 'gdstk::Array<gdstk::Vec2>' or 'Array<Vec2>' or 'Vec2' -> flat C name"""
        q = qname.strip()
        m = re.match(r'^([A-Za-z0-9_:]+)<(.*)>$', q)
        if m:
            base = m.group(1).split('::')[-1]
            args = split_template_args(m.group(2))
            parts = [base]
            for a in args:
                if re.match(r'^-?\d+$', a):
                    parts.append(a)
                else:
                    parts.append(self.type_flat(a))
            return '_'.join(parts)
        return q.split('::')[-1]

    def type_flat(self, tstr):
        t = self.resolve(TypeParser(tstr).parse())
        return self._flat_t(t)

    def _flat_t(self, t):
        if t.kind == 'base':
            return san(t.name)
        if t.kind == 'ptr':
            return self._flat_t(t.to) + '_p'
        if t.kind == 'ref':
            return self._flat_t(t.to) + '_ref'
        if t.kind == 'arr':
            return self._flat_t(t.of) + '_a%s' % t.n
        if t.kind == 'fn':
            return 'fn_' + hashlib.md5(repr(t).encode()).hexdigest()[:6]
        raise LoweringError('flat name for %r' % t)

    # resolve: normalise base names: strip namespaces, resolve typedefs, canonical builtins,
    # map records/enums to flat names
    def resolve(self, t, depth=0):
        if depth > 20:
            raise LoweringError('typedef recursion')
        if t.kind == 'base':
            name = t.name
            if name in BUILTIN_CANON:
                return T('base', name=BUILTIN_CANON[name], const=t.const)
            if all(w in BUILTIN_WORDS for w in name.split()):
                canon = ' '.join(w for w in name.split() if w != 'int' or len(name.split()) == 1)
                canon = {'long unsigned': 'unsigned long', 'unsigned long': 'unsigned long'}.get(canon, canon)
                if canon in BUILTIN_CANON:
                    return T('base', name=BUILTIN_CANON[canon], const=t.const)
                raise LoweringError('builtin type %r' % name)
            if '<' in name:
                return T('base', name=self.flat_record_name(name), const=t.const, record=True)
            short = name.split('::')[-1]
            if short in STD_TYPES:
                if short == 'tm':
                    return T('base', name='struct tm', const=t.const)
                if short == 'timespec':
                    return T('base', name='struct timespec', const=t.const)
                return T('base', name=short, const=t.const)
            if short in self.typedefs and short not in self.record_names() and short not in self.enum_names():
                und = self.typedefs[short]
                r = self.resolve(TypeParser(und).parse(), depth + 1)
                if t.const:
                    r = self._with_const(r)
                return r
            return T('base', name=short, const=t.const)
        if t.kind == 'ptr':
            return T('ptr', to=self.resolve(t.to, depth), const=t.const)
        if t.kind in ('ref', 'rref'):
            return T('ref', to=self.resolve(t.to, depth))
        if t.kind == 'arr':
            return T('arr', of=self.resolve(t.of, depth), n=t.n)
        if t.kind == 'fn':
            return T('fn', ret=self.resolve(t.ret, depth), params=[self.resolve(p, depth) for p in t.params],
                     variadic=t.variadic)
        raise LoweringError('resolve %r' % t)

    def _with_const(self, t):
        if t.kind == 'base':
            return T('base', name=t.name, const=True)
        if t.kind == 'ptr':
            return T('ptr', to=t.to, const=True)
        return t

    _rn = None

    def record_names(self):
        if self._rn is None:
            self._rn = set()
            self._en = set()
            for n in self.by_id.values():
                k = n.get('kind')
                if k in ('CXXRecordDecl', 'ClassTemplateSpecializationDecl', 'RecordDecl') and n.get('name'):
                    self._rn.add(n['name'])
                elif k == 'EnumDecl' and n.get('name'):
                    self._en.add(n['name'])
        return self._rn

    def enum_names(self):
        self.record_names()
        return self._en

    def parse_type(self, ty):
        """ty: clang type dict {'qualType':..., 'desugaredQualType':...} or string -> resolved T"""
        if isinstance(ty, dict):
            q = ty.get('qualType')
        else:
            q = ty
        try:
            t = self.resolve(TypeParser(q).parse())
        except LoweringError:
            if isinstance(ty, dict) and ty.get('desugaredQualType'):
                t = self.resolve(TypeParser(ty['desugaredQualType']).parse())
            else:
                raise
        self._note_type(t)
        return t

    def _note_type(self, t):
        if t.kind == 'base':
            nm = t.name
            self._need_record_or_enum(nm)
        elif t.kind in ('ptr', 'ref'):
            self._note_type(t.to)
        elif t.kind == 'arr':
            self._note_type(t.of)
        elif t.kind == 'fn':
            self._note_type(t.ret)
            for p in t.params:
                self._note_type(p)

    # ---------------------------------------------------------------- records and enums
    def _find_record(self, flat):
        if not hasattr(self, '_rec_index'):
            self._rec_index = {}
            self._enum_index = {}
            for n in self.by_id.values():
                k = n.get('kind')
                if k in ('CXXRecordDecl', 'ClassTemplateSpecializationDecl', 'RecordDecl'):
                    if not n.get('completeDefinition') or not n.get('name') or '_qname' not in n:
                        continue
                    if n.get('isImplicit'):
                        continue
                    sc = n.get('_scope', ())
                    if sc and sc[0] != 'gdstk':
                        continue
                    try:
                        fl = self.flat_record_name(n['_qname'])
                    except LoweringError:
                        continue
                    self._rec_index.setdefault(fl, n)
                elif k == 'EnumDecl' and n.get('name'):
                    if any(c.get('kind') == 'EnumConstantDecl' for c in n.get('inner', [])):
                        self._enum_index.setdefault(n['name'], n)
        return self._rec_index.get(flat)

    def flat_union(self, rec):
        """A record whose only data member is an anonymous union of layout-identical views of the
        same N scalars (anonymous structs of N fields of type T and/or an array T[N]) -- gdstk's Vec2
        and IntVec2 -- is lowered to a plain struct of N fields named after the first view; every
        other view is an alias that is rewritten to it (u,v / re,im / e[0],e[1] -> x,y).  Returns
        (type, [canonical names], {field id: position or 'array'}) or None."""
        key = rec['id']
        if not hasattr(self, '_flat_cache'):
            self._flat_cache = {}
        if key in self._flat_cache:
            return self._flat_cache[key]
        res = None
        fields = [f for f in rec.get('inner', []) if f.get('kind') == 'FieldDecl']
        anons = [f for f in rec.get('inner', []) if f.get('kind') in ('CXXRecordDecl', 'RecordDecl') and not f.get('name') and f.get('completeDefinition')]
        if len(fields) == 1 and not fields[0].get('name') and len(anons) == 1 and anons[0].get('tagUsed') == 'union':
            u = anons[0]
            views = []
            ok = True
            pend = None
            for f in u.get('inner', []):
                k = f.get('kind')
                if k in ('CXXRecordDecl', 'RecordDecl') and not f.get('name') and f.get('completeDefinition'):
                    if f.get('tagUsed') != 'struct':
                        ok = False
                    pend = f
                elif k == 'FieldDecl':
                    if not f.get('name'):
                        if pend is None:
                            ok = False
                            continue
                        fl = [x for x in pend.get('inner', []) if x.get('kind') == 'FieldDecl']
                        if any(not x.get('name') for x in fl) or any(x.get('kind') in ('CXXRecordDecl', 'RecordDecl') and not x.get('isImplicit') for x in pend.get('inner', [])):
                            ok = False
                        views.append(('struct', fl))
                        pend = None
                    else:
                        views.append(('array', f))
            if ok and views and views[0][0] == 'struct':
                names = [x['name'] for x in views[0][1]]
                ty = views[0][1][0]['type']['qualType']
                n = len(names)
                fmap = {}
                for kind, v in views:
                    if kind == 'struct':
                        if len(v) != n or any(x['type']['qualType'] != ty for x in v):
                            ok = False
                            break
                        for i, x in enumerate(v):
                            fmap[x['id']] = i
                    else:
                        m = re.match(r'^(.*)\[(\d+)\]$', v['type']['qualType'])
                        if not m or m.group(1).strip() != ty or int(m.group(2)) != n:
                            ok = False
                            break
                        fmap[v['id']] = 'array'
                if ok:
                    res = (ty, names, fmap)
        self._flat_cache[key] = res
        return res

    def flat_field(self, fid):
        """(canonical names, position|'array') if field id belongs to a flattened union record"""
        if not hasattr(self, '_flat_fields'):
            self._flat_fields = {}
            for n in self.by_id.values():
                if n.get('kind') in ('CXXRecordDecl', 'RecordDecl') and n.get('name') and n.get('completeDefinition') and '_qname' in n:
                    fu = self.flat_union(n)
                    if fu:
                        for k, v in fu[2].items():
                            self._flat_fields[k] = (fu[1], v)
        return self._flat_fields.get(fid)

    def _find_enum(self, flat):
        self._find_record('')
        return self._enum_index.get(flat)

    C_RECORDS = {'FILE', 'struct tm', 'struct timespec'}

    def _need_record_or_enum(self, nm):
        if nm in BUILTIN_CANON.values() or nm in STD_TYPES or nm in self.C_RECORDS:
            return
        if nm in self.needed_records_set:
            return
        r = self._find_record(nm)
        if r is not None:
            self.needed_records_set.add(nm)
            # fields first (by-value deps are ordered at emission)
            for f in r.get('inner', []):
                if f.get('kind') == 'FieldDecl' and f.get('name'):
                    self.parse_type(f['type'])
                elif f.get('kind') in ('CXXRecordDecl', 'RecordDecl') and not f.get('name') and f.get('completeDefinition'):
                    self._note_anon(f)
            self.needed_records.append(nm)
            return
        e = self._find_enum(nm)
        if e is not None:
            self.needed_records_set.add(nm)
            self.needed_enums.append(nm)
            return
        raise LoweringError('unknown type name %r' % nm)

    def _note_anon(self, rec):
        for f in rec.get('inner', []):
            if f.get('kind') == 'FieldDecl' and f.get('name'):
                self.parse_type(f['type'])
            elif f.get('kind') in ('CXXRecordDecl', 'RecordDecl') and not f.get('name') and f.get('completeDefinition'):
                self._note_anon(f)

    # ---------------------------------------------------------------- declarators
    def decl(self, t, name, top=True):
        """C declaration of `name` with (resolved) type t. references become pointers."""
        if t.kind == 'base':
            c = 'const ' if (t.const and False) else ''
            return ('%s%s %s' % (c, t.name, name)).rstrip()
        if t.kind in ('ptr', 'ref'):
            inner = '*' + name
            if t.to.kind in ('arr', 'fn'):
                inner = '(' + inner + ')'
            return self.decl(t.to, inner, False)
        if t.kind == 'arr':
            return self.decl(t.of, '%s[%s]' % (name, '' if t.n is None else t.n), False)
        if t.kind == 'fn':
            ps = ', '.join(self.decl(self._param_adjust(p), '') for p in t.params) or 'void'
            if t.variadic:
                ps += ', ...'
            return self.decl(t.ret, '%s(%s)' % (name, ps), False)
        raise LoweringError('decl %r' % t)

    def _param_adjust(self, p):
        return p

    def ctype(self, t):
        return self.decl(t, '').strip()

    def is_ref(self, ty):
        t = self.parse_type(ty)
        return t.kind == 'ref'

    # ---------------------------------------------------------------- function lookup
    def find_function(self, spec):
        """spec: 'gdstk::name' or 'gdstk::Class<Args>::name' optionally followed by '(paramtypes)'
        as in clang's type string, or a mangled name"""
        if spec in self.funcs_by_mangled:
            return spec
        if spec.startswith('flat:'):
            want = spec[5:]
            for mangled, decls in self.funcs_by_mangled.items():
                sc = decls[0].get('_scope', ())
                if not sc or sc[0] != 'gdstk':
                    continue
                try:
                    if self.flat_fn_name(mangled) == want:
                        return mangled
                except LoweringError:
                    continue
            raise LoweringError('no function with flat name %r' % want)
        m = re.match(r'^([^()]+?)(\((.*)\)( const)?)?$', spec)
        qn = m.group(1).strip()
        sig = m.group(2)
        cands = []
        for mangled, decls in self.funcs_by_mangled.items():
            d = decls[0]
            if self._norm_q(self.qualified(d)) == self._norm_q(qn):
                cands.append(mangled)
        if sig:
            want = re.sub(r'\s+', '', sig)
            cands2 = []
            for c in cands:
                ty = self.funcs_by_mangled[c][0]['type']['qualType']
                # "ret (params) const"
                mm = re.match(r'^.*?(\(.*\)( const)?)( noexcept)?$', ty)
                have = re.sub(r'\s+', '', mm.group(1)) if mm else ''
                if have == want:
                    cands2.append(c)
            cands = cands2
        if len(cands) != 1:
            raise LoweringError('function %r: %d candidates %s' % (
                spec, len(cands), [self.funcs_by_mangled[c][0]['type']['qualType'] for c in cands]))
        return cands[0]

    def _norm_q(self, q):
        # normalise template-arg spelling inside qualified names
        parts = []
        depth = 0
        cur = ''
        i = 0
        while i < len(q):
            if q[i] == '<':
                depth += 1
            elif q[i] == '>':
                depth -= 1
            if q[i:i + 2] == '::' and depth == 0:
                parts.append(cur)
                cur = ''
                i += 2
                continue
            cur += q[i]
            i += 1
        parts.append(cur)
        out = []
        for p in parts:
            if '<' in p:
                out.append(self.flat_record_name(p))
            else:
                out.append(p)
        return '::'.join(out)

    def definition(self, mangled):
        for d in self.funcs_by_mangled[mangled]:
            if any(c.get('kind') == 'CompoundStmt' for c in d.get('inner', [])):
                return d
        return None

    def flat_fn_name(self, mangled):
        if mangled in self.flat_of_mangled:
            return self.flat_of_mangled[mangled]
        d = self.funcs_by_mangled[mangled][0]
        scope = d.get('_scope', ())
        name = d['name']
        if not scope or scope[0] != 'gdstk':
            # C function / non-gdstk: keep the plain name
            flat = name
            self.flat_of_mangled[mangled] = flat
            return flat
        parts = []
        for s in scope[1:]:
            parts.append(self.flat_record_name(s) if '<' in s else s)
        if name.startswith('operator'):
            op = name[len('operator'):].strip()
            if op not in OPNAMES:
                raise LoweringError('operator %r' % name)
            name = OPNAMES[op]
            overloaded = True
        else:
            q = self._norm_q(self.qualified(d))
            same = [m for m, ds in self.funcs_by_mangled.items()
                    if ds[0].get('name') == d['name'] and self._norm_q(self.qualified(ds[0])) == q]
            overloaded = len(same) > 1
        # function template instantiations: add template args
        targs = [a for a in d.get('inner', []) if a.get('kind') == 'TemplateArgument']
        if targs:
            name += '_' + '_'.join(self.type_flat(self._targ_str(a)) for a in targs)
        flat = '__'.join(parts + [name]) if parts else name
        if overloaded:
            ft = self.parse_type(d['type'])
            flat += '__' + '_'.join(self._flat_t(p) for p in ft.params) if ft.params else '__void'
            if d['type']['qualType'].rstrip().endswith(' const') and name == 'op_index':
                flat += '_c'
        self.flat_of_mangled[mangled] = flat
        return flat

    # ---------------------------------------------------------------- requests
    def request(self, specs, stubs=()):
        """specs: functions to lower with bodies (transitively what they call).
        stubs: functions to emit as prototypes only (their callees are not followed)."""
        for s in stubs:
            m = self.find_function(s)
            self.proto_only.add(m)
        for s in specs:
            m = self.find_function(s)
            self._need_fn(m)
        # fixpoint: render bodies to discover callees
        self.bodies = {}
        i = 0
        while i < len(self.needed_funcs):
            m = self.needed_funcs[i]
            i += 1
            if m in self.proto_only:
                continue
            d = self.definition(m)
            if d is None:
                self.proto_only.add(m)
                continue
            self.bodies[m] = self._render_function(m, d)

    def _need_fn(self, mangled):
        if mangled not in self.needed_set:
            self.needed_set.add(mangled)
            self.needed_funcs.append(mangled)

    # ---------------------------------------------------------------- function rendering
    def _signature(self, mangled, d):
        flat = self.flat_fn_name(mangled)
        ft = self.parse_type(d['type'])
        if ft.kind != 'fn':
            raise LoweringError('not a function type: %r' % d['type'])
        params = []
        is_method = d['kind'] == 'CXXMethodDecl' and d.get('storageClass') != 'static'
        if is_method:
            rec = d['_scope'][-1]
            recflat = self.flat_record_name(rec) if '<' in rec else rec
            self._need_record_or_enum(recflat)
            params.append('%s *this_' % recflat)
        pv = [c for c in d.get('inner', []) if c.get('kind') == 'ParmVarDecl']
        for idx, p in enumerate(pv):
            pt = self.parse_type(p['type'])
            nm = p.get('name') or ('arg%d' % idx)
            params.append(self.decl(pt, nm))
        if ft.variadic:
            params.append('...')
        ret = ft.ret
        sig = self.decl(ret, '%s(%s)' % (flat, ', '.join(params) or 'void'))
        return flat, sig, ret

    def _render_function(self, mangled, d):
        flat, sig, ret = self._signature(mangled, d)
        self.cur_fn = {'flat': flat, 'ret': ret, 'loops': 0, 'tmp': 0}
        body = [c for c in d['inner'] if c.get('kind') == 'CompoundStmt'][0]
        text = self.stmt(body, 0, fnbody=True)
        self.loop_counts[flat] = self.cur_fn['loops']
        self.cur_fn = None
        return sig, text

    # ---------------------------------------------------------------- statements
    def ind(self, n):
        return '    ' * n

    def stmt(self, n, lvl, fnbody=False):
        if n.get('kind') == 'CompoundStmt':
            return self.stmt1(n, lvl, fnbody)
        saved = self.cur_fn.get('pending', [])
        self.cur_fn['pending'] = []
        text = self.stmt1(n, lvl, fnbody)
        mine = self.cur_fn['pending']
        self.cur_fn['pending'] = saved
        if mine:
            text = '\n'.join(self.ind(lvl) + d for d in mine) + '\n' + text
        return text

    def value(self, e):
        """C expression for the value of e, without materialising a temporary"""
        while e.get('kind') in ('MaterializeTemporaryExpr', 'ExprWithCleanups'):
            e = e['inner'][0]
        return self.expr(e)

    def stmt1(self, n, lvl, fnbody=False):
        k = n.get('kind')
        I = self.ind(lvl)
        if k == 'CompoundStmt':
            out = [I + '{']
            if fnbody:
                out.append(self.ind(lvl + 1) + '/*@ENTRY %s@*/' % self.cur_fn['flat'])
            for c in n.get('inner', []):
                out.append(self.stmt(c, lvl + 1))
            out.append(I + '}')
            return '\n'.join(out)
        if k == 'DeclStmt':
            out = []
            for c in n.get('inner', []):
                if c.get('kind') != 'VarDecl':
                    raise LoweringError('DeclStmt child %s' % c.get('kind'))
                out.append(I + self.vardecl(c) + ';')
            return '\n'.join(out)
        if k == 'IfStmt':
            inner = list(n.get('inner', []))
            if n.get('hasInit') or n.get('hasVar'):
                raise LoweringError('if with init/condition variable')
            cond = inner[0]
            then = inner[1]
            s = I + 'if (%s)\n' % self.expr(cond) + self.block(then, lvl)
            if n.get('hasElse'):
                els = inner[2]
                if els.get('kind') == 'IfStmt':
                    s += '\n' + I + 'else\n' + self.block(els, lvl)
                else:
                    s += '\n' + I + 'else\n' + self.block(els, lvl)
            return s
        if k == 'WhileStmt':
            inner = n['inner']
            if n.get('hasVar'):
                raise LoweringError('while with condition variable')
            ln = self._loop()
            return (I + 'while (%s)\n' % self.expr(inner[0]) + I + '/*@LOOP %s %d@*/\n' % (self.cur_fn['flat'], ln)
                    + self.loopbody(inner[1], lvl, ln))
        if k == 'ForStmt':
            init, condvar, cond, inc, body = n['inner']
            if condvar:
                raise LoweringError('for with condition variable')
            if not init:
                si = ''
            elif init.get('kind') == 'DeclStmt':
                vs = [c for c in init['inner']]
                if any(v.get('kind') != 'VarDecl' for v in vs):
                    raise LoweringError('for-init decl')
                # multiple declarators: must share base type; emit in an enclosing block instead
                if len(vs) == 1:
                    si = self.vardecl(vs[0])
                else:
                    pre = '\n'.join(self.ind(lvl + 1) + self.vardecl(v) + ';' for v in vs)
                    ln = self._loop()
                    return (I + '{\n' + pre + '\n' + self.ind(lvl + 1) + 'for (; %s; %s)\n' % (
                        self.expr(cond) if cond else '', self.expr(inc) if inc else '')
                        + self.ind(lvl + 1) + '/*@LOOP %s %d@*/\n' % (self.cur_fn['flat'], ln)
                        + self.loopbody(body, lvl + 1, ln) + '\n' + I + '}')
            else:
                si = self.expr(init)
            ln = self._loop()
            return (I + 'for (%s; %s; %s)\n' % (si, self.expr(cond) if cond else '', self.expr(inc) if inc else '')
                    + I + '/*@LOOP %s %d@*/\n' % (self.cur_fn['flat'], ln) + self.loopbody(body, lvl, ln))
        if k == 'DoStmt':
            body, cond = n['inner']
            ln = self._loop()
            return (I + 'do\n' + self.loopbody(body, lvl, ln) + '\n' + I + 'while (%s)\n' % self.expr(cond)
                    + I + '/*@LOOP %s %d@*/;' % (self.cur_fn['flat'], ln))
        if k == 'SwitchStmt':
            if n.get('hasInit') or n.get('hasVar'):
                raise LoweringError('switch with init/var')
            cond, body = n['inner']
            return I + 'switch (%s)\n' % self.expr(cond) + self.block(body, lvl)
        if k == 'CaseStmt':
            inner = n['inner']
            if n.get('isGNURange'):
                raise LoweringError('case range')
            val = self.case_value(inner[0])
            sub = inner[-1]
            return I + 'case %s:;\n' % val + self.stmt(sub, lvl)
        if k == 'DefaultStmt':
            return I + 'default:;\n' + self.stmt(n['inner'][0], lvl)
        if k == 'BreakStmt':
            return I + 'break;'
        if k == 'ContinueStmt':
            return I + 'continue;'
        if k == 'NullStmt':
            return I + ';'
        if k == 'ReturnStmt':
            inner = n.get('inner', [])
            if not inner:
                return I + 'return;'
            e = inner[0]
            if self.cur_fn['ret'].kind == 'ref':
                return I + 'return %s;' % self.addr(e)
            return I + 'return %s;' % self.expr(e)
        if k == 'LabelStmt':
            return I + '%s:;\n' % n['name'] + self.stmt(n['inner'][0], lvl)
        if k == 'GotoStmt':
            tgt = self.by_id.get(n.get('targetLabelDeclId'))
            if tgt is None:
                raise LoweringError('goto target')
            return I + 'goto %s;' % tgt['name']
        if k == 'AttributedStmt':
            subs = [c for c in n['inner'] if not c.get('kind', '').endswith('Attr')]
            return self.stmt(subs[0], lvl)
        # expression statement
        if self.is_expr(n):
            return I + self.expr(n) + ';'
        raise LoweringError('statement kind %s' % k)

    def _loop(self):
        ln = self.cur_fn['loops']
        self.cur_fn['loops'] += 1
        return ln

    def block(self, n, lvl):
        if n.get('kind') == 'CompoundStmt':
            return self.stmt(n, lvl)
        return self.ind(lvl) + '{\n' + self.stmt(n, lvl + 1) + '\n' + self.ind(lvl) + '}'

    def loopbody(self, n, lvl, ln):
        I = self.ind(lvl)
        I1 = self.ind(lvl + 1)
        fl = self.cur_fn['flat']
        if n.get('kind') == 'CompoundStmt':
            inner = '\n'.join(self.stmt(c, lvl + 1) for c in n.get('inner', []))
        else:
            inner = self.stmt(n, lvl + 1)
        return (I + '{\n' + I1 + '/*@LOOPBEGIN %s %d@*/\n' % (fl, ln) + inner + '\n' + I1
                + '/*@LOOPEND %s %d@*/;\n' % (fl, ln) + I + '}')

    def case_value(self, n):
        if n.get('kind') == 'ConstantExpr':
            if 'value' in n:
                return n['value']
            return self.expr(n['inner'][0])
        return self.expr(n)

    def vardecl(self, v):
        t = self.parse_type(v['type'])
        name = v['name']
        sc = v.get('storageClass')
        pre = ''
        if sc == 'static':
            pre = 'static '
        elif sc == 'extern':
            pre = 'extern '
        inits = [c for c in v.get('inner', []) if self.is_expr(c)]
        if t.kind == 'ref':
            if not inits:
                raise LoweringError('reference without initializer')
            return pre + self.decl(t, name) + ' = ' + self.addr(inits[0])
        d = pre + self.decl(t, name)
        if not inits:
            return d
        init = inits[0]
        s = self.initializer(init, t)
        if s is None:
            return d
        return d + ' = ' + s

    def initializer(self, init, t):
        """initializer text for a variable of type t; None for 'leave uninitialised'"""
        k = init.get('kind')
        if k == 'ExprWithCleanups':
            return self.initializer(init['inner'][0], t)
        if k == 'CXXConstructExpr':
            args = [c for c in init.get('inner', [])]
            if not args:
                # trivial default constructor: indeterminate value, or zero-init if requested
                if init.get('zeroing'):
                    return '{0}'
                return None
            if len(args) == 1:
                return self.initializer(args[0], t)
            raise LoweringError('constructor with %d args' % len(args))
        if k == 'InitListExpr':
            return self.initlist(init)
        if k == 'ImplicitValueInitExpr' or k == 'CXXScalarValueInitExpr':
            return '{0}' if self.is_aggregate_t(t) else '0'
        if k == 'MaterializeTemporaryExpr':
            return self.initializer(init['inner'][0], t)
        if k == 'ImplicitCastExpr' and init.get('castKind') == 'NoOp':
            return self.initializer(init['inner'][0], t)
        if k == 'CXXFunctionalCastExpr' and init['inner'][0].get('kind') == 'InitListExpr':
            return self.initlist(init['inner'][0])
        return self.expr(init)

    def is_aggregate_t(self, t):
        if t.kind == 'arr':
            return True
        if t.kind == 'base':
            return self._find_record(t.name) is not None
        return False

    def initlist(self, n):
        q = n.get('type', {}).get('qualType', '')
        if '(anonymous' not in q and '(unnamed' not in q:
            try:
                t0 = self.parse_type(n['type'])
                rec = self._find_record(t0.name) if t0.kind == 'base' else None
            except LoweringError:
                rec = None
            if rec is not None and self.flat_union(rec):
                # descend through the union / struct levels to the scalar initialisers
                cur = n
                while True:
                    inner = [c for c in cur.get('inner', [])]
                    if len(inner) == 1 and inner[0].get('kind') == 'InitListExpr':
                        cur = inner[0]
                        continue
                    break
                items = [self.init_item(c) for c in cur.get('inner', [])]
                if not items:
                    return '{0}'
                return '{' + ', '.join(items) + '}'
        items = []
        inner = n.get('inner', [])
        if 'array_filler' in n:
            # clang prints array_filler as a list: [ {filler}, explicit inits... ]
            af = n['array_filler']
            inner = [c for c in af if c.get('kind') != 'ImplicitValueInitExpr']
            if not inner:
                return '{0}'
        if 'field' in n:
            # union initialisation: must be the first member to be expressible without a name
            fld = n['field']
            if fld.get('name'):
                if len(inner) != 1:
                    raise LoweringError('union init with %d inits' % len(inner))
                return '{ .%s = %s }' % (fld['name'], self.init_item(inner[0]))
            # anonymous first member
        if not inner:
            return '{0}'
        for c in inner:
            items.append(self.init_item(c))
        return '{' + ', '.join(items) + '}'

    def init_item(self, c):
        k = c.get('kind')
        if k == 'InitListExpr':
            return self.initlist(c)
        if k == 'ImplicitValueInitExpr':
            if '(anonymous' in c['type']['qualType'] or '(unnamed' in c['type']['qualType']:
                return '{0}'
            t = self.parse_type(c['type'])
            return '{0}' if self.is_aggregate_t(t) else '0'
        if k in ('CXXConstructExpr', 'ExprWithCleanups', 'MaterializeTemporaryExpr'):
            t = self.parse_type(c['type'])
            s = self.initializer(c, t)
            if s is None:
                raise LoweringError('uninitialised member in init list')
            return s
        return self.expr(c)

    # ---------------------------------------------------------------- expressions
    EXPR_KINDS = {
        'BinaryOperator', 'CompoundAssignOperator', 'UnaryOperator', 'ConditionalOperator', 'CallExpr',
        'CXXMemberCallExpr', 'CXXOperatorCallExpr', 'MemberExpr', 'DeclRefExpr', 'ImplicitCastExpr',
        'CStyleCastExpr', 'CXXStaticCastExpr', 'CXXReinterpretCastExpr', 'CXXConstCastExpr',
        'CXXFunctionalCastExpr', 'ParenExpr', 'IntegerLiteral', 'FloatingLiteral', 'CharacterLiteral',
        'StringLiteral', 'CXXBoolLiteralExpr', 'CXXNullPtrLiteralExpr', 'GNUNullExpr', 'InitListExpr',
        'ImplicitValueInitExpr', 'CXXConstructExpr', 'MaterializeTemporaryExpr', 'ExprWithCleanups',
        'CXXThisExpr', 'ArraySubscriptExpr', 'UnaryExprOrTypeTraitExpr', 'ConstantExpr',
        'CXXScalarValueInitExpr', 'CXXTemporaryObjectExpr', 'SubstNonTypeTemplateParmExpr',
        'CXXDefaultArgExpr', 'CXXNewExpr', 'CXXDeleteExpr', 'LambdaExpr', 'PredefinedExpr',
        'OffsetOfExpr', 'CXXBindTemporaryExpr', 'VAArgExpr', 'OpaqueValueExpr', 'StmtExpr',
    }

    def is_expr(self, n):
        return n.get('kind') in self.EXPR_KINDS

    def strip_casts(self, n):
        while n.get('kind') in ('ImplicitCastExpr', 'ParenExpr') and n.get('inner'):
            n = n['inner'][0]
        return n

    def addr(self, e):
        """C expression for the address of the object the (glvalue or temporary) expression e denotes"""
        k = e.get('kind')
        if k == 'ExprWithCleanups':
            return self.addr(e['inner'][0])
        if k == 'ImplicitCastExpr' and e.get('castKind') in ('NoOp', 'DerivedToBase', 'UncheckedDerivedToBase') and e.get('valueCategory') != 'prvalue':
            if e.get('castKind') != 'NoOp':
                raise LoweringError('derived-to-base')
            return self.addr(e['inner'][0])
        if k == 'ParenExpr':
            return self.addr(e['inner'][0])
        if k == 'UnaryOperator' and e.get('opcode') == '*':
            return self.expr(e['inner'][0])
        if k == 'DeclRefExpr':
            rd = e['referencedDecl']
            if rd['kind'] in ('VarDecl', 'ParmVarDecl') and self.is_ref(rd['type']):
                return self.var_name(rd)
        if e.get('valueCategory') == 'prvalue' and k != 'MaterializeTemporaryExpr':
            # a prvalue bound directly (C++17 elision shapes); materialise
            t = self.parse_type(e['type'])
            return '&' + self.temp(e, t)
        s = self.expr(e)
        m = re.match(r'^\(\*(.*)\)$', s)
        if m and self._balanced(m.group(1)):
            return m.group(1)
        return '&' + s

    def _balanced(self, s):
        d = 0
        for ch in s:
            if ch == '(':
                d += 1
            elif ch == ')':
                d -= 1
                if d < 0:
                    return False
        return d == 0

    def temp(self, inner, t):
        """an lvalue C expression holding the value of prvalue `inner` (a compound literal)"""
        ct = self.ctype(t)
        if t.kind == 'arr':
            raise LoweringError('array temporary')
        s = self.initializer(inner, t)
        if s is None:
            raise LoweringError('uninitialised temporary')
        if s.startswith('{'):
            return '((%s)%s)' % (ct, s)
        if self.is_aggregate_t(t):
            # a struct-valued expression cannot initialise a compound literal (brace elision);
            # hoist a temporary declared just before the enclosing statement
            self.cur_fn['tmp'] = self.cur_fn.get('tmp', 0) + 1
            nm = 'vf_tmp%d' % self.cur_fn['tmp']
            self.cur_fn.setdefault('pending', []).append(self.decl(t, nm) + ';')
            return '(*(%s = %s, &%s))' % (nm, s, nm)
        return '((%s){%s})' % (ct, s)

    def var_name(self, rd):
        d = self.by_id.get(rd['id'], rd)
        if rd['id'] in self.global_vars:
            return self.global_name(self.global_vars[rd['id']])
        return rd['name']

    def global_name(self, d):
        # follow redeclarations to a definition if there is one
        if d['id'] not in [g['id'] for g in self.needed_globals]:
            self.needed_globals.append(d)
        sc = d.get('_scope', ())
        if sc and sc[0] == 'gdstk' and len(sc) > 1:
            return '_'.join([self.flat_record_name(s) if '<' in s else s for s in sc[1:]] + [d['name']])
        return d['name']

    def cast(self, n, tgt=None):
        t = self.parse_type(n['type'])
        return '((%s)%s)' % (self.ctype(t), self.expr(n['inner'][0]))

    def expr(self, n):
        k = n.get('kind')
        if k == 'ParenExpr':
            return '(' + self.expr(n['inner'][0]) + ')'
        if k in ('ExprWithCleanups', 'ConstantExpr', 'SubstNonTypeTemplateParmExpr'):
            return self.expr(n['inner'][0])
        if k == 'IntegerLiteral':
            return self.intlit(n)
        if k == 'FloatingLiteral':
            t = self.parse_type(n['type'])
            v = float(n['value'])
            if v != v or v in (float('inf'), float('-inf')):
                raise LoweringError('non-finite literal')
            s = v.hex()
            if t.kind == 'base' and t.name == 'float':
                return s + 'f'
            return '/*%s*/%s' % (n['value'], s)
        if k == 'CharacterLiteral':
            return str(n['value'])
        if k == 'StringLiteral':
            return n['value']
        if k == 'CXXBoolLiteralExpr':
            return 'true' if n['value'] else 'false'
        if k in ('CXXNullPtrLiteralExpr',):
            return 'NULL'
        if k == 'GNUNullExpr':
            return '0'
        if k == 'CXXThisExpr':
            return 'this_'
        if k == 'DeclRefExpr':
            rd = n['referencedDecl']
            rk = rd['kind']
            if rk in ('VarDecl', 'ParmVarDecl'):
                nm = self.var_name(rd)
                if self.is_ref(rd['type']):
                    return '(*%s)' % nm
                return nm
            if rk == 'EnumConstantDecl':
                return self.enum_const(rd)
            if rk in ('FunctionDecl', 'CXXMethodDecl'):
                return self.fn_ref(rd)
            raise LoweringError('DeclRefExpr to %s' % rk)
        if k == 'ImplicitCastExpr' or k in ('CStyleCastExpr', 'CXXStaticCastExpr', 'CXXReinterpretCastExpr',
                                            'CXXConstCastExpr', 'CXXFunctionalCastExpr'):
            ck = n.get('castKind')
            inner = n['inner'][0]
            if ck in ('LValueToRValue', 'NoOp', 'FunctionToPointerDecay', 'ArrayToPointerDecay'):
                if k != 'ImplicitCastExpr' and ck == 'NoOp':
                    # explicit cast that changes nothing but maybe qualifiers/typedef: keep the cast for scalars
                    t = self.parse_type(n['type'])
                    if inner.get('kind') == 'InitListExpr':
                        return self.temp(inner, t)
                    if t.kind in ('ptr',) or (t.kind == 'base' and not self.is_aggregate_t(t)):
                        return '((%s)%s)' % (self.ctype(t), self.expr(inner))
                return self.expr(inner)
            if ck in ('IntegralCast', 'IntegralToFloating', 'FloatingToIntegral', 'FloatingCast', 'BitCast',
                      'PointerToIntegral', 'IntegralToPointer', 'BooleanToSignedIntegral'):
                t = self.parse_type(n['type'])
                if t.kind == 'base' and t.name == 'bool' and ck == 'IntegralCast':
                    return '((bool)%s)' % self.expr(inner)
                return '((%s)%s)' % (self.ctype(t), self.expr(inner))
            if ck in ('IntegralToBoolean', 'FloatingToBoolean'):
                return '((%s) != 0)' % self.expr(inner)
            if ck == 'PointerToBoolean':
                return '((%s) != NULL)' % self.expr(inner)
            if ck == 'NullToPointer':
                t = self.parse_type(n['type'])
                return '((%s)0)' % self.ctype(t)
            if ck == 'ToVoid':
                return '((void)%s)' % self.expr(inner)
            if ck == 'ConstructorConversion':
                return self.expr(inner)
            raise LoweringError('cast kind %s' % ck)
        if k == 'UnaryOperator':
            op = n['opcode']
            inner = n['inner'][0]
            if op == '&':
                return self.addr(inner)
            if op == '*':
                return '(*%s)' % self.expr(inner)
            if op in ('-', '+', '!', '~'):
                return '(%s%s)' % (op, self.expr(inner))
            if op in ('++', '--'):
                if n.get('isPostfix'):
                    return '(%s%s)' % (self.expr(inner), op)
                return '(%s%s)' % (op, self.expr(inner))
            if op == '__extension__':
                return self.expr(inner)
            raise LoweringError('unary %s' % op)
        if k in ('BinaryOperator', 'CompoundAssignOperator'):
            op = n['opcode']
            a, b = n['inner']
            if op == ',':
                return '(%s, %s)' % (self.expr(a), self.expr(b))
            if op in ('.*', '->*'):
                raise LoweringError('pointer to member')
            if self.fp_uf and op in ('+', '-', '*', '/', '+=', '-=', '*=', '/='):
                t = self.parse_type(n['type'])
                if t.kind == 'base' and t.name == 'double':
                    # optional sound abstraction (group option uf_fp): double arithmetic through macros
                    # that the proof defines as uninterpreted functions (include/vf.h)
                    mac = {'+': 'VF_FADD', '-': 'VF_FSUB', '*': 'VF_FMUL', '/': 'VF_FDIV'}[op[0]]
                    if k == 'BinaryOperator':
                        return '%s(%s, %s)' % (mac, self.expr(a), self.expr(b))
                    lhs = self.expr(a)
                    if '++' in lhs or '--' in lhs or re.search(r'[A-Za-z_][A-Za-z0-9_]*\(', lhs):
                        # the left operand has side effects: evaluate its address once into a hoisted temporary
                        self.cur_fn['tmp'] = self.cur_fn.get('tmp', 0) + 1
                        nm = 'vf_tmp%d' % self.cur_fn['tmp']
                        self.cur_fn.setdefault('pending', []).append('double *%s;' % nm)
                        return '(%s = %s, *%s = %s(*%s, %s))' % (nm, self.addr(a), nm, mac, nm, self.expr(b))
                    return '(%s = %s(%s, %s))' % (lhs, mac, lhs, self.expr(b))
            if op == '/' and self.fdiv_macro and k == 'BinaryOperator':
                t = self.parse_type(n['type'])
                if t.kind == 'base' and t.name == 'double':
                    # optional sound abstraction: double division through a macro that a proof group
                    # may define as an uninterpreted function (see include/vf.h, VF_UF_FDIV)
                    return 'VF_FDIV(%s, %s)' % (self.expr(a), self.expr(b))
            return '(%s %s %s)' % (self.expr(a), op, self.expr(b))
        if k == 'ConditionalOperator':
            c, a, b = n['inner']
            if n.get('valueCategory') == 'lvalue':
                return '(*(%s ? %s : %s))' % (self.expr(c), self.addr(a), self.addr(b))
            return '(%s ? %s : %s)' % (self.expr(c), self.expr(a), self.expr(b))
        if k == 'ArraySubscriptExpr':
            a, b = n['inner']
            am = self.strip_casts(a)
            if am.get('kind') == 'MemberExpr':
                ff = self.flat_field(am.get('referencedMemberDecl'))
                if ff is not None and ff[1] == 'array':
                    try:
                        idx = self._const_int(b)
                    except (LoweringError, KeyError):
                        raise LoweringError('array view of a flattened union indexed by a non-constant')
                    if not (0 <= idx < len(ff[0])):
                        raise LoweringError('array view index out of range')
                    fake = dict(am)
                    fake['name'] = ff[0][idx]
                    fake['referencedMemberDecl'] = None
                    return self.member(fake)
            return '%s[%s]' % (self.expr(a), self.expr(b))
        if k == 'MemberExpr':
            return self.member(n)
        if k == 'UnaryExprOrTypeTraitExpr':
            if n.get('name') != 'sizeof':
                raise LoweringError('type trait %s' % n.get('name'))
            if 'argType' in n:
                return 'sizeof(%s)' % self.ctype(self.parse_type(n['argType']))
            return 'sizeof(%s)' % self.expr(n['inner'][0])
        if k == 'CallExpr':
            return self.call(n)
        if k == 'CXXMemberCallExpr':
            return self.member_call(n)
        if k == 'CXXOperatorCallExpr':
            return self.operator_call(n)
        if k == 'MaterializeTemporaryExpr':
            t = self.parse_type(n['type'])
            return self.temp(n['inner'][0], t)
        if k in ('CXXConstructExpr', 'CXXTemporaryObjectExpr'):
            args = n.get('inner', [])
            t = self.parse_type(n['type'])
            if len(args) == 1:
                a = args[0]
                at = self.parse_type(a['type'])
                return self.expr(a)
            if not args:
                return '((%s){0})' % self.ctype(t)
            raise LoweringError('construct expr with %d args' % len(args))
        if k == 'InitListExpr':
            t = self.parse_type(n['type'])
            if not self.is_aggregate_t(t):
                inner = n.get('inner', [])
                if len(inner) == 1:
                    return self.expr(inner[0])
                if not inner:
                    return '((%s)0)' % self.ctype(t)
            return '((%s)%s)' % (self.ctype(t), self.initlist(n))
        if k in ('ImplicitValueInitExpr', 'CXXScalarValueInitExpr'):
            t = self.parse_type(n['type'])
            if self.is_aggregate_t(t):
                return '((%s){0})' % self.ctype(t)
            return '((%s)0)' % self.ctype(t)
        raise LoweringError('expression kind %s' % k)

    def intlit(self, n):
        t = self.parse_type(n['type'])
        v = n['value']
        suf = {'int': '', 'uint32_t': 'U', 'int64_t': 'L', 'uint64_t': 'UL', 'long long': 'LL',
               'unsigned long long': 'ULL'}.get(t.name)
        if suf is None:
            raise LoweringError('integer literal of type %s' % t.name)
        return v + suf

    def enum_const(self, rd):
        d = self.by_id.get(rd['id'])
        # find the enum that owns it
        en = self._enum_of_const(rd['id'])
        self._need_record_or_enum(en['name'])
        return '%s_%s' % (en['name'], rd['name'])

    def _enum_of_const(self, cid):
        if not hasattr(self, '_const_owner'):
            self._const_owner = {}
            for n in self.by_id.values():
                if n.get('kind') == 'EnumDecl':
                    for c in n.get('inner', []):
                        if c.get('kind') == 'EnumConstantDecl':
                            self._const_owner[c['id']] = n
        en = self._const_owner.get(cid)
        if en is None or not en.get('name'):
            raise LoweringError('enum constant without named enum')
        return en

    def member(self, n):
        # skip anonymous struct/union levels
        base = n['inner'][0]
        arrow = n.get('isArrow')
        fld = self.by_id.get(n.get('referencedMemberDecl'))
        name = n.get('name')
        if fld is not None and fld.get('kind') in ('CXXMethodDecl',):
            raise LoweringError('bound member function outside a call')
        ff = self.flat_field(n.get('referencedMemberDecl'))
        if ff is not None:
            if ff[1] == 'array':
                raise LoweringError('array view of a flattened union used without a constant index')
            name = ff[0][ff[1]]
        if not name:
            # anonymous member access: transparent in C11
            if arrow:
                return '(*%s)' % self.expr(base) if False else self._anon_arrow(base)
            return self.expr(base)
        b = self.expr(base)
        if arrow:
            return '%s->%s' % (b, name)
        # base may be an anonymous-arrow marker
        if b.startswith('\x00ARROW\x00'):
            return '%s->%s' % (b[len('\x00ARROW\x00'):], name)
        return '%s.%s' % (b, name)

    def _anon_arrow(self, base):
        return '\x00ARROW\x00' + self.expr(base)

    def fn_ref(self, rd):
        d = self.by_id.get(rd['id'])
        if d is None:
            raise LoweringError('unknown function decl %s' % rd.get('name'))
        m = d.get('mangledName')
        if m is None:
            raise LoweringError('function without mangled name %s' % rd.get('name'))
        sc = d.get('_scope', ())
        if sc and sc[0] == 'gdstk':
            self._need_fn(m)
            return self.flat_fn_name(m)
        if sc:
            raise LoweringError('call into namespace %s (%s)' % (sc[0], rd.get('name')))
        self.extern_calls.add(d['name'])
        if d['name'] not in LIBC_KNOWN:
            self.extern_protos[d['name']] = d
        return d['name']

    def _callee_decl(self, callee):
        c = self.strip_casts(callee)
        if c.get('kind') == 'DeclRefExpr' and c['referencedDecl']['kind'] in ('FunctionDecl', 'CXXMethodDecl'):
            return self.by_id.get(c['referencedDecl']['id'])
        if c.get('kind') == 'MemberExpr':
            return self.by_id.get(c.get('referencedMemberDecl'))
        return None

    def _args(self, ptypes, args, variadic_ok=False):
        out = []
        for i, a in enumerate(args):
            if a.get('kind') == 'CXXDefaultArgExpr':
                raise LoweringError('default argument')
            if i < len(ptypes) and ptypes[i].kind == 'ref':
                out.append(self.addr(a))
            else:
                out.append(self.expr(a))
        return out

    def _ret_wrap(self, ft, s):
        if ft.ret.kind == 'ref':
            return '(*%s)' % s
        return s

    def call(self, n):
        callee = n['inner'][0]
        args = n['inner'][1:]
        d = self._callee_decl(callee)
        if d is not None:
            ft = self.parse_type(d['type'])
            fname = self.fn_ref({'id': d['id'], 'name': d.get('name')})
        else:
            # call through a function pointer
            ct = self.parse_type(callee['type'])
            ft = ct.to if ct.kind == 'ptr' else ct
            if ft.kind != 'fn':
                raise LoweringError('call of non-function')
            fname = self.expr(callee)
        a = self._args(ft.params, args)
        return self._ret_wrap(ft, '%s(%s)' % (fname, ', '.join(a)))

    def member_call(self, n):
        me = n['inner'][0]
        args = n['inner'][1:]
        me = self.strip_casts(me)
        if me.get('kind') != 'MemberExpr':
            raise LoweringError('member call through %s' % me.get('kind'))
        d = self.by_id.get(me.get('referencedMemberDecl'))
        if d is None or d.get('kind') != 'CXXMethodDecl':
            raise LoweringError('member call target')
        ft = self.parse_type(d['type'])
        fname = self.fn_ref({'id': d['id'], 'name': d.get('name')})
        base = me['inner'][0]
        if me.get('isArrow'):
            obj = self.expr(base)
        else:
            obj = self.addr(base)
        a = [obj] + self._args(ft.params, args)
        return self._ret_wrap(ft, '%s(%s)' % (fname, ', '.join(a)))

    def operator_call(self, n):
        callee = n['inner'][0]
        args = n['inner'][1:]
        d = self._callee_decl(callee)
        if d is None:
            raise LoweringError('operator call target')
        if d.get('name') == 'operator=' and d['kind'] == 'CXXMethodDecl':
            if not (d.get('isImplicit') or d.get('explicitlyDefaulted')):
                raise LoweringError('user-provided operator=')
            # trivial copy/move assignment of a trivially copyable record: plain C struct assignment
            return '(%s = %s)' % (self.expr(args[0]), self.value(args[1]))
        ft = self.parse_type(d['type'])
        fname = self.fn_ref({'id': d['id'], 'name': d.get('name')})
        if d['kind'] == 'CXXMethodDecl':
            obj = self.addr(args[0])
            a = [obj] + self._args(ft.params, args[1:])
        else:
            a = self._args(ft.params, args)
        return self._ret_wrap(ft, '%s(%s)' % (fname, ', '.join(a)))

    # ---------------------------------------------------------------- emission
    def emit_types(self):
        out = []
        for en in self.needed_enums:
            e = self._find_enum(en)
            ut = e.get('fixedUnderlyingType')
            u = self.ctype(self.parse_type(ut)) if ut else 'int'
            out.append('typedef %s %s;' % (u, en))
            val = -1
            consts = []
            for c in e.get('inner', []):
                if c.get('kind') != 'EnumConstantDecl':
                    continue
                v = None
                for x in c.get('inner', []):
                    v = self._const_int(x)
                if v is None:
                    val += 1
                else:
                    val = v
                consts.append('%s_%s = %d' % (en, c['name'], val))
            out.append('enum { %s };' % ', '.join(consts))
        # records: forward typedefs then bodies in by-value dependency order
        for rn in self.needed_records:
            r = self._find_record(rn)
            kw = 'union' if r.get('tagUsed') == 'union' else 'struct'
            out.append('typedef %s %s %s;' % (kw, rn, rn))
        done = set()
        order = []

        def visit(rn, stack=()):
            if rn in done:
                return
            if rn in stack:
                raise LoweringError('by-value record cycle at %s' % rn)
            r = self._find_record(rn)
            for dep in self._byvalue_deps(r):
                if dep in self.needed_records_set and self._find_record(dep) is not None:
                    visit(dep, stack + (rn,))
            done.add(rn)
            order.append(rn)
        for rn in self.needed_records:
            visit(rn)
        for rn in order:
            r = self._find_record(rn)
            kw = 'union' if r.get('tagUsed') == 'union' else 'struct'
            out.append('%s %s {' % (kw, rn))
            out.extend(self._fields(r, 1))
            out.append('};')
        return '\n'.join(out)

    def _const_int(self, x):
        k = x.get('kind')
        if k == 'ConstantExpr':
            if 'value' in x:
                return int(x['value'])
            return self._const_int(x['inner'][0])
        if k == 'IntegerLiteral':
            return int(x['value'])
        if k in ('ImplicitCastExpr', 'ParenExpr'):
            return self._const_int(x['inner'][0])
        if k == 'UnaryOperator' and x['opcode'] == '-':
            return -self._const_int(x['inner'][0])
        if k == 'BinaryOperator':
            a = self._const_int(x['inner'][0])
            b = self._const_int(x['inner'][1])
            op = x['opcode']
            return {'<<': a << b, '|': a | b, '+': a + b, '-': a - b, '*': a * b, '&': a & b}[op]
        raise LoweringError('enum constant expression %s' % k)

    def _byvalue_deps(self, r):
        deps = []
        for f in r.get('inner', []):
            if f.get('kind') == 'FieldDecl' and f.get('name'):
                t = self.parse_type(f['type'])
                while t.kind == 'arr':
                    t = t.of
                if t.kind == 'base':
                    deps.append(t.name)
            elif f.get('kind') in ('CXXRecordDecl', 'RecordDecl') and not f.get('name'):
                deps.extend(self._byvalue_deps(f))
        return deps

    def _fields(self, r, lvl):
        out = []
        I = self.ind(lvl)
        fu = self.flat_union(r) if r.get('name') else None
        if fu:
            t = self.parse_type(fu[0])
            return [I + self.decl(t, nm) + ';' for nm in fu[1]] + [I + '/* flattened union of alias views */']
        inner = r.get('inner', [])
        i = 0
        pending_anon = None
        for f in inner:
            k = f.get('kind')
            if k in ('CXXRecordDecl', 'RecordDecl') and not f.get('name') and f.get('completeDefinition'):
                pending_anon = f
                continue
            if k == 'FieldDecl':
                if not f.get('name'):
                    # the implicit field of an anonymous struct/union
                    if pending_anon is None:
                        raise LoweringError('anonymous field without record')
                    kw = 'union' if pending_anon.get('tagUsed') == 'union' else 'struct'
                    if kw == 'union' and r.get('name') in getattr(self, 'disjoint_unions', ()):
                        # group option disjoint_unions: the members of this discriminated union are laid out
                        # side by side (sound iff the code only reads the member it last wrote; see DESIGN 9.8)
                        kw = 'struct'
                        self.disjoint_fired = True
                    out.append(I + kw + ' {' + (' /* disjoint layout of a discriminated union */' if kw == 'struct' and pending_anon.get('tagUsed') == 'union' else ''))
                    out.extend(self._fields(pending_anon, lvl + 1))
                    out.append(I + '};')
                    pending_anon = None
                    continue
                if f.get('isBitfield'):
                    raise LoweringError('bitfield')
                t = self.parse_type(f['type'])
                if t.kind == 'ref':
                    raise LoweringError('reference member')
                out.append(I + self.decl(t, f['name']) + ';')
            elif k in ('CXXRecordDecl', 'RecordDecl') and f.get('name') and not f.get('isImplicit') and f.get('completeDefinition'):
                raise LoweringError('nested named record %s' % f.get('name'))
        return out

    def emit_globals(self):
        out = []
        seen = set()
        for g in self.needed_globals:
            nm = self.global_name(g)
            if nm in seen:
                continue
            seen.add(nm)
            # find a definition among redeclarations (same name & scope) that has an initializer
            cands = [d for d in self.global_vars.values()
                     if d.get('name') == g.get('name') and d.get('_scope') == g.get('_scope')]
            definition = None
            for d in cands:
                if any(self.is_expr(c) for c in d.get('inner', [])):
                    definition = d
            t = self.parse_type(g['type'])
            if definition is not None:
                save = self.cur_fn
                self.cur_fn = {'flat': '(global)', 'ret': T('base', name='void', const=False), 'loops': 0}
                init = [c for c in definition['inner'] if self.is_expr(c)][0]
                dt = self.parse_type(definition['type'])
                s = self.initializer(init, dt)
                self.cur_fn = save
                out.append('static %s = %s;' % (self.decl(dt, nm), s))
            else:
                out.append('%s;' % self.decl(t, nm))
        return '\n'.join(out)

    def emit(self, header='', splice=None, split=False):
        """returns the C translation unit. splice(flat, sig, body) may rewrite a function's text
        (contract insertion)."""
        protos = []
        defs = []
        for m in self.needed_funcs:
            d = self.definition(m) or self.funcs_by_mangled[m][0]
            if m in self.bodies:
                sig, body = self.bodies[m]
                flat = self.flat_fn_name(m)
                protos.append(sig + ';')
                defs.append((flat, sig, body))
            else:
                flat, sig, ret = self._signature(m, d)
                protos.append(sig + ';')
                defs.append((flat, sig, None))
        types = self.emit_types()
        globs = self.emit_globals()
        eprotos = []
        for nm, d in sorted(self.extern_protos.items()):
            ft = self.parse_type(d['type'])
            ps = ', '.join(self.decl(p, '') for p in ft.params) or 'void'
            if ft.variadic:
                ps += ', ...'
            eprotos.append(self.decl(ft.ret, '%s(%s)' % (nm, ps)) + ';')
        part1 = '\n\n'.join([header, types, globs, '\n'.join(eprotos), '\n'.join(protos)]) + '\n'
        out = []
        for flat, sig, body in defs:
            if splice:
                out.append(splice(flat, sig, body))
            elif body is not None:
                out.append(sig + '\n' + body)
        part2 = '\n\n'.join(out) + '\n'
        if '\x00ARROW\x00' in part1 + part2:
            raise LoweringError('unresolved anonymous arrow member access')
        if split:
            return part1, part2
        return part1 + '\n' + part2

    def cxx_record_name(self, flat):
        r = self._find_record(flat)
        return '::'.join(r.get('_scope', ()) + (r['_qname'],))

    def emit_adapters(self):
        """C++ text mapping the flat C names onto the real gdstk entities (native replay side)"""
        out = ['// generated by cxx2c: adapters from flat C names to the real C++ entities']
        for en in self.needed_enums:
            e = self._find_enum(en)
            q = '::'.join(e.get('_scope', ()) + (e['name'],))
            out.append('typedef %s %s;' % (q, en))
            for c in e.get('inner', []):
                if c.get('kind') == 'EnumConstantDecl':
                    out.append('static const %s %s_%s = %s::%s;' % (q, en, c['name'], q, c['name']))
        for rn in self.needed_records:
            out.append('typedef %s %s;' % (self.cxx_record_name(rn), rn))
        seen = set()
        for g in self.needed_globals:
            nm = self.global_name(g)
            if nm in seen:
                continue
            seen.add(nm)
            sc = g.get('_scope', ())
            if sc and sc[0] == 'gdstk' and len(sc) == 1:
                out.append('#define %s gdstk::%s' % (nm, g['name']))
        for m in self.needed_funcs:
            d = self.definition(m) or self.funcs_by_mangled[m][0]
            flat, sig, ret = self._signature(m, d)
            ft = self.parse_type(d['type'])
            pv = [c for c in d.get('inner', []) if c.get('kind') == 'ParmVarDecl']
            args = []
            for idx, p in enumerate(pv):
                nm = p.get('name') or ('arg%d' % idx)
                pt = self.parse_type(p['type'])
                if pt.kind == 'ptr' and pt.to.kind == 'fn':
                    # function pointers whose signature mentions references: same ABI, different C++ type
                    args.append('reinterpret_cast<%s>(%s)' % (p['type']['qualType'], nm))
                else:
                    args.append(('*' + nm) if pt.kind == 'ref' else nm)
            name = d['name']
            targs = [a for a in d.get('inner', []) if a.get('kind') == 'TemplateArgument']
            tsuffix = ''
            if targs:
                tsuffix = '<' + ', '.join(self._targ_str(a) for a in targs) + '>'
            is_method = d['kind'] == 'CXXMethodDecl' and d.get('storageClass') != 'static'
            if is_method:
                call = 'this_->%s%s(%s)' % (name, tsuffix, ', '.join(args))
            else:
                sc = d.get('_scope', ())
                call = '%s%s(%s)' % ('::'.join(sc + (name,)), tsuffix, ', '.join(args))
            if ret.kind == 'ref':
                call = '&(%s)' % call
            if ret.kind == 'base' and ret.name == 'void':
                body = '{ %s; }' % call
            else:
                body = '{ return %s; }' % call
            out.append('static inline %s %s' % (sig, body))
        return '\n'.join(out) + '\n'

    def function_table(self):
        """flat name -> dict(mangled, qualified, type, has_body, loops)"""
        tab = {}
        for m in self.needed_funcs:
            d = self.funcs_by_mangled[m][0]
            flat = self.flat_fn_name(m)
            tab[flat] = {
                'mangled': m, 'qualified': self.qualified(d), 'type': d['type']['qualType'],
                'has_body': m in self.bodies, 'loops': self.loop_counts.get(flat, 0),
                'method': d['kind'] == 'CXXMethodDecl', 'scope': list(d.get('_scope', ())),
                'params': [(p.get('name') or 'arg%d' % i, p['type']['qualType']) for i, p in enumerate(
                    [c for c in d.get('inner', []) if c.get('kind') == 'ParmVarDecl'])],
            }
        return tab


def dump_ast(src, out_json, extra_flags=()):
    repo = os.environ.get('VF_REPO', '/repo')
    cmd = ['clang++', '-std=c++17', '-DNDEBUG', '-I%s/include' % repo, '-I%s/external' % repo, '-fsyntax-only',
           '-Xclang', '-ast-dump=json'] + list(extra_flags) + [src]
    with open(out_json, 'w') as f:
        r = subprocess.run(cmd, stdout=f, stderr=subprocess.PIPE, text=True)
    if r.returncode != 0:
        raise LoweringError('clang failed on %s:\n%s' % (src, r.stderr[-3000:]))


HEADER = '''#include <stdint.h>
#include <stddef.h>
#include <stdbool.h>
#include <stdio.h>
#include <stdlib.h>
#include <string.h>
#include <math.h>
#include <limits.h>
#include <float.h>
#include <time.h>
'''

if __name__ == '__main__':
    import argparse
    ap = argparse.ArgumentParser()
    ap.add_argument('--ast')
    ap.add_argument('--tu')
    ap.add_argument('--fn', action='append', default=[])
    ap.add_argument('--stub', action='append', default=[])
    a = ap.parse_args()
    if a.tu and not a.ast:
        a.ast = '/tmp/cxx2c_%d.json' % os.getpid()
        dump_ast(a.tu, a.ast)
    L = Lowering(a.ast)
    L.request(a.fn, a.stub)
    sys.stdout.write(L.emit(HEADER))
    sys.stderr.write(json.dumps(L.function_table(), indent=1))
