#!/bin/bash
# stop every running check of this framework (and its solver processes)
for p in $(pgrep -f "vfrun[.]py"); do kill $p 2>/dev/null; done
for p in $(pgrep -x cbmc); do kill $p 2>/dev/null; done
for p in $(pgrep -x goto-instrument); do kill $p 2>/dev/null; done
exit 0
