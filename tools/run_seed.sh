#!/bin/bash
# usage: run_seed.sh <seed name, e.g. C19-m1> <PID> [check args...]
# applies seeded/<name>/patch.diff to a scratch worktree of /repo, runs ./check <PID> against it
# (VF_REPO), prints the verdict lines, removes the worktree.
set -u
NAME=$1; PID=$2; shift 2
WT=$(mktemp -d /tmp/seedrun_XXXXXX)
git -C /repo worktree add -q --detach "$WT" HEAD || exit 2
trap 'git -C /repo worktree remove --force "$WT" >/dev/null 2>&1; rm -rf "$WT"' EXIT
git -C "$WT" apply /verif/seeded/$NAME/patch.diff 2>/dev/null || git -C "$WT" apply --3way /verif/seeded/$NAME/patch.diff || { echo "patch failed"; exit 2; }
cd /verif && VF_REPO="$WT" ./check "$PID" --no-evidence "$@" 2>&1 | grep -v "^ --" | grep -E "VIOLATION|UNDECIDED|KNOWN|^property|^  [a-z0-9_]+ " | sed "s/^/[$NAME] /"
