#!/usr/bin/env python3
"""vfrun -- runs the contract obligations of one property (DESIGN.md section 4).

usage: vfrun.py <PID> [--tier quick|thorough] [--group NAME]... [--keep] [--replay FILE] [--jobs N]

Exit codes: 0 every obligation discharged (or only listed known findings failed);
            1 an obligation failed -> "VIOLATION property=<id> replay=<path>" per failed group;
            2 could not decide (extraction break, timeout, tool error); never prints VIOLATION.
"""
import sys, os, json, re, time, shutil, subprocess, tempfile, importlib.util, argparse, traceback, hashlib
import concurrent.futures as cf

VERIF = os.path.dirname(os.path.dirname(os.path.abspath(__file__)))
REPO = os.environ.get('VF_REPO', '/repo')
sys.path.insert(0, os.path.join(VERIF, 'tools'))
import cxx2c, contracts as ct   # noqa

CBMC_CHECKS = ['--bounds-check', '--pointer-check', '--pointer-overflow-check', '--div-by-zero-check',
               '--undefined-shift-check', '--signed-overflow-check', '--pointer-primitive-check']
# --conversion-check is opt-in per group (key extra_checks): it also flags well-defined truncating
# integer conversions such as (uint16_t)((b << 8) | (b >> 8)), which are not errors
MEM_KB = 24 * 1024 * 1024


class Undecided(Exception):
    pass


def run(cmd, timeout, cwd=None, stdout=None, mem_kb=MEM_KB):
    pre = 'ulimit -v %d; ' % mem_kb
    t0 = time.time()
    try:
        r = subprocess.run(['bash', '-c', pre + 'exec "$@"', 'x'] + cmd, cwd=cwd, timeout=timeout,
                           stdout=stdout if stdout else subprocess.PIPE, stderr=subprocess.PIPE, text=True, errors='replace')
        return r.returncode, (r.stdout if not stdout else ''), r.stderr, time.time() - t0
    except subprocess.TimeoutExpired:
        return 'timeout', '', '', time.time() - t0


def load_spec(pid):
    p = os.path.join(VERIF, 'specs', pid + '.py')
    if not os.path.exists(p):
        print('no spec for property %s' % pid)
        sys.exit(2)
    sp = importlib.util.spec_from_file_location('spec_' + pid, p)
    m = importlib.util.module_from_spec(sp)
    sp.loader.exec_module(m)
    return m


_ast_cache = {}


def get_lowering(tu, scratch):
    """tu: path relative to /repo, or absolute path of a driver TU under /verif/drivers"""
    if tu in _ast_cache:
        return _ast_cache[tu]
    src = tu if os.path.isabs(tu) else os.path.join(REPO, tu)
    if not os.path.exists(src):
        raise Undecided('extraction break: translation unit %s does not exist' % src)
    js = os.path.join(scratch, 'ast_' + re.sub(r'[^A-Za-z0-9]', '_', tu) + '.json')
    cxx2c.dump_ast(src, js, ['-I' + os.path.join(VERIF, 'include')])
    L = cxx2c.Lowering(js)
    os.unlink(js)
    _ast_cache[tu] = L
    return L


def build_group_c(g, L0, allc, scratch, vacuity=False):
    """lower, splice contracts, return path of the C file and the function table"""
    L = L0.fork()
    L.fdiv_macro = bool(g.get('uf_fdiv'))
    L.fp_uf = bool(g.get('uf_fp'))
    L.disjoint_unions = tuple(g.get('disjoint_unions', ()))
    L.request(g['roots'], g.get('stubs', []))
    tab = L.function_table()
    def split(spec):
        return tuple(spec.split('/', 1)) if '/' in spec else (spec, spec)
    enforce_fn, enforce_ct = split(g['enforce']) if g.get('enforce') else (None, None)
    replace_pairs = [split(r) for r in g.get('replace', [])]
    enforce = enforce_fn
    replace = [f for f, _ in replace_pairs]
    ct_of = {f: c for f, c in replace_pairs}
    if enforce_fn:
        ct_of[enforce_fn] = enforce_ct
    loops_for = set(g.get('loop_contracts_for', [enforce] if enforce else []))
    for f in ([enforce] + replace if enforce else replace):
        if f not in tab:
            raise Undecided('extraction break: function %s is not in the lowered unit (renamed or removed?)' % f)
        if ct_of[f] not in allc:
            raise Undecided('no contract %s for %s' % (ct_of[f], f))
        if allc[ct_of[f]].target != f:
            raise Undecided('contract %s is not for %s' % (ct_of[f], f))
    for f in loops_for:
        cn = ct_of.get(f, f)
        if cn in allc and f in tab:
            c = allc[cn]
            want = set(c.loops) | set(n for (n, _) in c.ghost_loop)
            if want and max(want) >= tab[f]['loops']:
                raise Undecided('extraction break: contract of %s names loop %d, lowered function has %d loops'
                                % (f, max(want), tab[f]['loops']))
            nl = g.get('expect_loops', {}).get(f)
            if nl is not None and nl != tab[f]['loops']:
                raise Undecided('extraction break: %s has %d loops, contract was written for %d'
                                % (f, tab[f]['loops'], nl))

    def sp(flat, sig, body):
        cn = ct_of.get(flat, flat)
        c = allc.get(cn)
        with_fn = flat == enforce or flat in replace
        with_loops = flat in loops_for or flat in g.get('ghost_only_for', [])
        gonly = flat in g.get('ghost_only_for', []) and flat not in loops_for
        if flat in replace and flat != enforce and not g.get('keep_replaced_bodies'):
            body = None   # replaced callee: contract on the declaration only
        if c is None or not (with_fn or with_loops):
            if body is None:
                return sig + ';'
            return sig + '\n' + body
        extra = ()
        if vacuity and flat == enforce:
            extra = ('0 /*VF_VACUITY*/',)
        if cn != flat and with_fn:
            # named contract variant: a declaration of the variant carries the clauses
            vsig = re.sub(r'\b%s\(' % re.escape(flat), cn + '(', sig, count=1)
            decl = ct.splice(cn, vsig, None, c, True, False, 0, extra)
            fn = ct.splice(flat, sig, body, c, False, with_loops, tab[flat]['loops']) if body is not None else sig + ';'
            if c.ghost_entry and body is not None and not with_loops:
                fn = fn.replace('/*@ENTRY %s@*/' % flat, ' '.join(c.ghost_entry), 1)
            return decl + '\n' + fn
        res = ct.splice(flat, sig, body, c, with_fn, with_loops, tab[flat]['loops'], extra, ghost_only=gonly)
        if c.ghost_entry and body is not None and not with_loops and flat == enforce:
            # a bounded group (loop contracts not applied) still needs the entry snapshots its ensures clauses refer to
            res = res.replace('/*@ENTRY %s@*/' % flat, ' '.join(c.ghost_entry), 1)
        return res

    g['_has_loop_contracts'] = any(ct_of.get(f, f) in allc and f in tab and (allc[ct_of.get(f, f)].loops) for f in loops_for)
    g['_enforce_fn'] = enforce_fn
    g['_extern_calls'] = set(L.extern_calls)
    g['_enforce_ct'] = enforce_ct
    part1, part2 = L.emit(cxx2c.HEADER, splice=sp, split=True)
    cfile = os.path.join(scratch, g['name'] + ('.vac' if vacuity else '') + '.c')
    inc = ''.join('#include "%s"\n' % os.path.join(VERIF, h) for h in g.get('spec_headers', []))
    models = ''.join('#include "%s"\n' % os.path.join(VERIF, h) for h in g.get('models', []))
    with open(cfile, 'w') as f:
        f.write('#define VF_CBMC 1\n')
        if g.get('uf_fdiv'):
            f.write('#define VF_UF_FDIV 1\n')
        if g.get('uf_fp'):
            f.write('#define VF_UF_FP 1\n')
        for k, v in g.get('defines', {}).items():
            f.write('#define %s %s\n' % (k, v))
        f.write('#include "%s"\n' % os.path.join(VERIF, 'include/vf.h'))
        f.write('/* ---- lowered from %s by cxx2c (types, prototypes) ---- */\n' % g['tu'])
        f.write(part1)
        f.write('/* ---- spec functions and environment models ---- */\n')
        f.write(inc)
        f.write(models)
        f.write('/* ---- lowered function bodies with side-car contracts spliced in ---- */\n')
        f.write(part2)
        f.write('/* ---- harness ---- */\n')
        f.write('#define VF_ENTRY_%s 1\n' % g['entry'])
        for gv in L.needed_globals:
            f.write('#define VF_HAS_%s 1\n' % L.global_name(gv))
        f.write('#include "%s"\n' % os.path.join(VERIF, g['harness']))
    return cfile, tab, L


def parse_cbmc_json(path):
    with open(path, errors='replace') as f:
        txt = f.read()
    try:
        data = json.loads(txt)
    except Exception:
        # truncated output (timeout/oom)
        return None, [], txt[-2000:]
    results = []
    status = None
    msgs = []
    for m in data:
        if 'result' in m:
            results = m['result']
        if 'cProverStatus' in m:
            status = m['cProverStatus']
        if 'messageText' in m and m.get('messageType') in ('ERROR', 'WARNING'):
            msgs.append(m['messageText'])
    return status, results, '\n'.join(msgs)


def jval(v):
    """CBMC JSON value -> python int (raw bits) / list / dict"""
    if v is None:
        return None
    n = v.get('name')
    if n in ('integer', 'float', 'pointer', 'boolean') or 'binary' in v:
        if 'binary' in v:
            return int(v['binary'], 2)
        if n == 'boolean':
            return 1 if v.get('data') in (True, 'true', 'TRUE') else 0
        try:
            return int(re.sub(r'[^0-9-]', '', str(v.get('data', '0'))) or '0')
        except ValueError:
            return 0
    if n == 'array':
        return {e['index']: jval(e['value']) for e in v.get('elements', [])}
    if n == 'struct':
        return {m['name']: jval(m['value']) for m in v.get('members', [])}
    if n == 'union':
        return {m['name']: jval(m['value']) for m in v.get('members', [])} if 'members' in v else 0
    return 0


def extract_inputs(trace):
    """last value assigned to every IN_* global (scalars, arrays and struct fields flattened)"""
    vals = {}

    def put(prefix, v):
        if isinstance(v, dict):
            for k, x in v.items():
                if isinstance(k, int):
                    put('%s[%d]' % (prefix, k), x)
                else:
                    put('%s.%s' % (prefix, k), x)
        elif v is not None:
            vals[prefix] = v
    for st in trace:
        if st.get('stepType') != 'assignment':
            continue
        lhs = st.get('lhs', '')
        if not lhs.startswith('IN_'):
            continue
        lhs = re.sub(r'\[(\d+)[a-zA-Z]*\]', r'[\1]', lhs)   # IN_a[0l][1l] -> IN_a[0][1]
        put(lhs, jval(st.get('value')))
    return vals


def cbmc_group(g, cfile, scratch, tag, props=None, trace=True):
    """goto-cc / goto-instrument / cbmc for one group. returns dict"""
    base = os.path.join(scratch, g['name'] + tag)
    entry = g['entry']
    t0 = time.time()
    rc, out, err, _ = run(['goto-cc', '--function', entry, cfile, '-o', base + '.a.gb'], 300)
    if rc != 0:
        raise Undecided('goto-cc failed for %s:\n%s' % (g['name'], (out + err)[-3000:]))
    plain = not g.get('enforce') and not g.get('replace') and not g.get('replace_extern') and not g.get('replace_extern_if_called')
    cmd = ['goto-instrument', '--dfcc', entry]
    if g.get('enforce'):
        cmd += ['--enforce-contract', g['enforce']]   # 'f' or 'f/contract_variant'
    # replace_extern_if_called: libc/libm contracts that apply only when the lowered code calls the function at all
    # (dfcc refuses to replace a function that is not in the binary)
    opt = [r for r in g.get('replace_extern_if_called', []) if r in g.get('_extern_calls', ())]
    for r in list(g.get('replace', [])) + list(g.get('replace_extern', [])) + opt:
        cmd += ['--replace-call-with-contract', r]
    if g.get('apply_loop_contracts', g.get('_has_loop_contracts', False)):
        cmd += ['--apply-loop-contracts']
    cmd += g.get('instrument_flags', [])
    cmd += [base + '.a.gb', base + '.b.gb']
    if plain:
        # plain-assertion group without contract replacement: cbmc on the goto binary as is (full C library models)
        shutil.copy(base + '.a.gb', base + '.b.gb')
        out = err = ''
    else:
        rc, out, err, _ = run(cmd, 600)
        if rc != 0:
            raise Undecided('goto-instrument failed for %s:\n%s' % (g['name'], (out + err)[-3000:]))
    instr_log = out + err
    cb = ['cbmc', base + '.b.gb', '--object-bits', str(g.get('object_bits', 12)), '--no-malloc-may-fail'] + [
        c for c in CBMC_CHECKS if c not in g.get('drop_checks', [])]
    STANDARD = ('--bounds-check', '--pointer-check', '--div-by-zero-check', '--signed-overflow-check',
                '--undefined-shift-check', '--pointer-primitive-check')
    for c in g.get('drop_checks', []):
        if c in STANDARD:
            cb.append('--no-' + c[2:])   # cbmc 6 turns the standard checks on by default
    cb += g.get('extra_checks', [])
    if g.get('leak_check'):
        cb += ['--memory-leak-check']
    if g.get('unwind') is not None:
        cb += ['--unwind', str(g['unwind']), '--unwinding-assertions']
    for k, v in g.get('unwindset', {}).items():
        cb += ['--unwindset', '%s:%d' % (k, v)]
    if g.get('unwindset') and g.get('unwind') is None:
        cb += ['--unwinding-assertions']
    solver = os.environ.get('VF_SOLVER') or g.get('solver')
    if solver:
        cb += ['--sat-solver', solver]
    cb += g.get('cbmc_flags', [])
    if props:
        for p in props:
            cb += ['--property', p]
    cb += ['--json-ui']
    if trace:
        cb += ['--trace']
    outp = base + '.out.json'
    with open(outp, 'w') as fo:
        rc, _, err, wall = run(cb, g.get('timeout', 600), stdout=fo)
    if rc == 'timeout':
        return {'status': 'timeout', 'wall': wall, 'cmd': ' '.join(cb), 'instr_log': instr_log}
    status, results, msgs = parse_cbmc_json(outp)
    if status is None and not results:
        return {'status': 'error', 'wall': wall, 'cmd': ' '.join(cb), 'msg': (msgs or err)[-3000:],
                'instr_log': instr_log}
    return {'status': status, 'results': results, 'wall': wall, 'cmd': ' '.join(cb), 'msgs': msgs,
            'instr_log': instr_log, 'total_wall': time.time() - t0}


def native_lib(scratch):
    """sanitizer build of the whole of /repo/src (working tree) as a static archive, built at most
    once per run (lazily, under a lock): the replay driver #includes the TU under test and takes
    everything else from this archive"""
    import fcntl
    d = os.path.join(scratch, 'nativelib')
    os.makedirs(d, exist_ok=True)
    lib = os.path.join(d, 'libgdstk_san.a')
    with open(os.path.join(d, 'lock'), 'w') as lk:
        fcntl.flock(lk, fcntl.LOCK_EX)
        if os.path.exists(lib):
            return lib, ''
        import glob
        srcs = sorted(glob.glob(os.path.join(REPO, 'src', '*.cpp'))) + [os.path.join(REPO, 'external/clipper/clipper.cpp')]
        procs = []
        objs = []
        for sfile in srcs:
            o = os.path.join(d, os.path.basename(sfile) + '.o')
            objs.append(o)
            procs.append(subprocess.Popen(
                ['g++', '-std=c++17', '-g', '-O1', '-fsanitize=address,undefined', '-fno-sanitize-recover=undefined',
                 '-DNDEBUG', '-w', '-I' + os.path.join(REPO, 'include'), '-I' + os.path.join(REPO, 'external'),
                 '-c', sfile, '-o', o], stdout=subprocess.PIPE, stderr=subprocess.STDOUT, text=True))
        log = ''
        ok = True
        for pr in procs:
            out, _ = pr.communicate()
            if pr.returncode != 0:
                ok = False
                log += out[-2000:]
        if not ok:
            return None, log
        subprocess.run(['ar', 'rcs', lib] + objs, check=True)
        return lib, ''


def native_replay(g, L, allc, inputs_path, scratch, pid):
    """build the same harness against the real gdstk code and run it on the extracted inputs.
    returns ('fails', text) | ('passes', text) | ('precondition', text) | ('builderror', text)"""
    nd = os.path.join(scratch, 'native_' + g['name'])
    os.makedirs(nd, exist_ok=True)
    drv = os.path.join(nd, 'driver.cpp')
    with open(os.path.join(nd, 'adapters.hpp'), 'w') as f:
        f.write(L.emit_adapters())
    with open(os.path.join(nd, 'contract_macros.h'), 'w') as f:
        for spec in [g.get('enforce')] + list(g.get('replace', [])):
            if not spec:
                continue
            fn, cn = (spec.split('/', 1) + [spec])[:2] if '/' in spec else (spec, spec)
            if cn in allc:
                f.write(ct.native_macros(allc[cn], None, fn) + '\n')
    with open(drv, 'w') as f:
        for k, v in g.get('defines', {}).items():
            f.write('#define %s %s\n' % (k, v))
        for s in g.get('native_include', [g['tu']]):
            f.write('#include "%s"\n' % (s if os.path.isabs(s) else os.path.join(REPO, s)))
        f.write('#include "%s"\n' % os.path.join(VERIF, 'include/vf.h'))
        f.write('#include "adapters.hpp"\n')
        for h in g.get('spec_headers', []):
            f.write('#include "%s"\n' % os.path.join(VERIF, h))
        f.write('#include "contract_macros.h"\n')
        f.write('#define VF_ENTRY_%s 1\n' % g['entry'])
        for gv in L.needed_globals:
            f.write('#define VF_HAS_%s 1\n' % L.global_name(gv))
        f.write('#include "%s"\n' % os.path.join(VERIF, g['harness']))
        f.write('int main(int argc, char **argv) { if (argc > 1) vf_load(argv[1]); %s(); '
                'printf(vf_failed ? "VF_RESULT FAIL\\n" : "VF_RESULT PASS\\n"); return vf_failed ? 1 : 0; }\n'
                % g['entry'])
    exe = os.path.join(nd, 'driver')
    srcs = [drv, os.path.join(VERIF, 'include/vf_native.c')]
    lib, liblog = native_lib(scratch)
    if lib is None:
        return 'builderror', 'building /repo/src natively failed:\n' + liblog
    cmd = ['g++', '-std=c++17', '-g', '-O0', '-fsanitize=address,undefined', '-fno-sanitize-recover=undefined',
           '-fno-access-control',   # contracts are also put on private helper methods (e.g. RobustPath::simple_scale)
           '-DNDEBUG', '-w', '-I' + os.path.join(REPO, 'include'), '-I' + os.path.join(REPO, 'external'),
           '-I' + nd, '-x', 'c++'] + srcs + ['-x', 'none', lib, '-o', exe, '-lz', '-lqhull_r', '-lm'] + g.get('native_ldflags', [])
    rc, out, err, _ = run(cmd, 600, mem_kb=64 * 1024 * 1024)
    if rc != 0:
        return 'builderror', (out + err)[-4000:]
    env = dict(os.environ, ASAN_OPTIONS='detect_leaks=%d:abort_on_error=0' % (1 if g.get('leak_check') else 0),
               UBSAN_OPTIONS='print_stacktrace=1')
    try:
        r = subprocess.run([exe, inputs_path], capture_output=True, text=True, timeout=g.get('native_timeout', 20), env=env)
        txt = (r.stdout + r.stderr)[-6000:]
        rc = r.returncode
    except subprocess.TimeoutExpired as e:
        return 'fails', 'native run did not terminate within %ds (hang)\n' % g.get('native_timeout', 20)
    if rc == 3 and 'VF_PRECONDITION_NOT_MET' in txt:
        return 'precondition', txt
    if rc == 0 and 'VF_RESULT PASS' in txt:
        return 'passes', txt
    return 'fails', txt


def process_group(args):
    g, pid, scratch, tier, known = args
    res = {'back_end': 'cbmc 6.11.0 SAT (%s)' % (g.get('solver') or 'minisat2'), 'name': g['name'], 'kind': g['kind'], 'enforce': g.get('enforce'), 'replace': g.get('replace', []),
           'bound': g.get('bound', ''), 'obligations': 0, 'discharged': 0, 'failed': [], 'undecided': None,
           'wall': 0.0, 'samples': [], 'violations': [], 'known': [], 'vacuity': None, 'loop_obligations': 0}
    try:
        allc = ct.load_dir(os.path.join(VERIF, 'contracts'))
        L0 = get_lowering(g['tu'], scratch)
        cfile, tab, L = build_group_c(g, L0, allc, scratch)
        res['functions'] = sorted(k for k, v in tab.items() if v['has_body'])
        r = cbmc_group(g, cfile, scratch, '')
        res['wall'] = r.get('wall', 0)
        res['cmd'] = r.get('cmd')
        if r['status'] in ('timeout', 'error'):
            res['undecided'] = '%s: cbmc %s after %.0fs %s' % (g['name'], r['status'], r.get('wall', 0), r.get('msg', ''))
            return res
        results = r['results']
        res['obligations'] = len(results)
        res['discharged'] = sum(1 for x in results if x['status'] == 'SUCCESS')
        if 'ignoring' in r.get('msgs', '') and 'forall' in r.get('msgs', ''):
            res['undecided'] = '%s: back end ignored a quantifier' % g['name']
            return res
        res['loop_obligations'] = sum(1 for x in results if 'loop_invariant_step' in x['property'] or 'loop invariant' in x['description'].lower())
        res['samples'] = [{'obligation': x['property'], 'description': x['description'][:120], 'status': x['status']}
                          for x in (results[:2] + [x for x in results if 'postcondition' in x['property']][:3])]
        if res['obligations'] == 0:
            res['undecided'] = '%s: zero obligations generated (vacuous)' % g['name']
            return res
        # loop-contract vacuity: every loop with an invariant must have produced step obligations
        enforce = g.get('_enforce_fn')
        ectr = g.get('_enforce_ct')
        if enforce and ectr in allc and g.get('apply_loop_contracts', g.get('_has_loop_contracts', False)):
            nl = sum(1 for n, Lp in allc[ectr].loops.items() if Lp['invariant'])
            if enforce in g.get('loop_contracts_for', [enforce]) and nl:
                steps = sum(1 for x in results if re.search(r'loop_invariant_step', x['property']))
                if steps < nl:
                    res['undecided'] = '%s: %d loop contracts but only %d loop_invariant_step obligations' % (g['name'], nl, steps)
                    return res
        failed = [x for x in results if x['status'] not in ('SUCCESS', 'UNKNOWN')]
        unknown = [x for x in results if x['status'] == 'UNKNOWN']
        if unknown and not failed:
            res['undecided'] = '%s: %d obligations left UNKNOWN by cbmc' % (g['name'], len(unknown))
            return res
        # vacuity of the enforced contract: ensures(false) must FAIL
        if enforce and not failed and not g.get('skip_vacuity'):
            cf2, _, _ = build_group_c(g, L0, allc, scratch, vacuity=True)
            npost = len(allc[ectr].ensures) + 1
            rv = cbmc_group(g, cf2, scratch, '.vac', trace=False, props=['%s.postcondition.%d' % (enforce, npost)])
            if rv['status'] == 'error':
                # property naming differs (e.g. named contract variants): run without the filter
                rv = cbmc_group(g, cf2, scratch, '.vac', trace=False)
            if rv['status'] in ('timeout', 'error'):
                res['undecided'] = '%s: vacuity run %s' % (g['name'], rv['status'])
                return res
            vf = [x for x in rv['results'] if x['status'] != 'SUCCESS' and 'postcondition' in x['property']]
            res['vacuity'] = 'reachable' if vf else 'VACUOUS'
            res['wall'] += rv.get('wall', 0)
            if not vf:
                res['undecided'] = '%s: ensures(false) was discharged: the requires clause is contradictory' % g['name']
                return res
        # plain-assertion groups (no enforced contract): the end of the harness must be reachable
        if not enforce and not failed and not g.get('skip_vacuity'):
            g2 = dict(g)
            g2['defines'] = dict(g.get('defines', {}), VF_VACUITY_PROBE=1)
            g2['name'] = g['name'] + '.probe'
            cf2, _, _ = build_group_c(g2, L0, allc, scratch)
            rv = cbmc_group(g2, cf2, scratch, '', trace=False)
            if rv['status'] in ('timeout', 'error'):
                res['undecided'] = '%s: reachability probe %s' % (g['name'], rv['status'])
                return res
            hit = [x for x in rv['results'] if x['status'] == 'FAILURE' and 'VF_VACUITY probe' in x['description']]
            res['vacuity'] = 'reachable' if hit else 'VACUOUS'
            res['wall'] += rv.get('wall', 0)
            if not hit:
                res['undecided'] = '%s: the end of the harness is unreachable (assumptions contradictory) or has no VF_REACHED()' % g['name']
                return res
        # a failure under the uninterpreted-division abstraction may be spurious: search for a
        # bit-precise counterexample of the same obligations before replaying
        if failed and g.get('uf_fdiv') and not g.get('no_refine'):
            g2 = dict(g, uf_fdiv=False, name=g['name'] + '.precise', timeout=g.get('refine_timeout', 900))
            try:
                cf3, _, _ = build_group_c(g2, L0, allc, scratch)
                r3 = cbmc_group(g2, cf3, scratch, '', props=[x['property'] for x in failed[:3]])
                if r3.get('results'):
                    prec = {x['property']: x for x in r3['results'] if x['status'] != 'SUCCESS' and x.get('trace')}
                    for x in failed:
                        if x['property'] in prec:
                            x['trace'] = prec[x['property']]['trace']
                            x['description'] += ' [counterexample re-derived with bit-precise division]'
                res['wall'] += r3.get('wall', 0)
            except Undecided:
                pass
        # failures: replay each distinct failing obligation (first few) natively
        repdir = os.path.join(VERIF, 'out', 'replay', pid)
        os.makedirs(repdir, exist_ok=True)
        native_built = {}
        for x in failed[:g.get('max_replays', 3)]:
            ob = x['property']
            inputs = extract_inputs(x.get('trace', []))
            rp = os.path.join(repdir, '%s.%s.json' % (g['name'], re.sub(r'[^A-Za-z0-9_.-]', '_', ob)))
            inp = rp[:-5] + '.inputs'
            with open(inp, 'w') as f:
                for k in sorted(inputs):
                    f.write('%s %d\n' % (k, inputs[k]))
            verdict, text = ('notrace', 'cbmc produced no trace for this obligation')
            if x.get('trace') and not g.get('no_native'):
                try:
                    verdict, text = native_replay(g, L, allc, inp, scratch, pid)
                except Exception as e:
                    verdict, text = 'builderror', traceback.format_exc()
            rec = {'property': pid, 'group': g['name'], 'function': enforce, 'obligation': ob,
                   'description': x['description'], 'source_location': x.get('sourceLocation'),
                   'inputs_file': inp, 'inputs': {k: inputs[k] for k in sorted(inputs)},
                   'native_verdict': verdict, 'native_output': text,
                   'cbmc_cmd': r.get('cmd'), 'spec_group': g['name'],
                   'verifier_output': '%s: %s [%s]' % (ob, x['description'], x['status']),
                   'trace_tail': [{'lhs': s.get('lhs'), 'value': (s.get('value') or {}).get('data'),
                                   'line': (s.get('sourceLocation') or {}).get('line'),
                                   'function': (s.get('sourceLocation') or {}).get('function')}
                                  for s in x.get('trace', []) if s.get('stepType') == 'assignment' and not s.get('hidden')][-60:]}
            with open(rp, 'w') as f:
                json.dump(rec, f, indent=1)
            res['failed'].append({'obligation': ob, 'description': x['description'], 'replay': rp,
                                  'native': verdict, 'inputs': rec['inputs']})
        for x in failed[g.get('max_replays', 3):]:
            res['failed'].append({'obligation': x['property'], 'description': x['description'], 'replay': None,
                                  'native': 'not-replayed', 'inputs': {}})
        return res
    except Undecided as e:
        res['undecided'] = str(e)
        return res
    except (cxx2c.LoweringError, ct.ContractError) as e:
        res['undecided'] = 'extraction break in %s: %s' % (g['name'], e)
        return res
    except Exception:
        res['undecided'] = 'internal error in %s: %s' % (g['name'], traceback.format_exc())
        return res


def load_known(pid):
    p = os.path.join(VERIF, 'known_findings.json')
    if not os.path.exists(p):
        return []
    with open(p) as f:
        d = json.load(f)
    return [k for k in d.get('findings', []) if k.get('property') == pid and k.get('status') == 'open']


def matches_known(kf, group, failure):
    if kf.get('group') != group:
        return False
    if kf.get('obligation') and not re.search(kf['obligation'], failure['obligation']):
        return False
    return True


def replay_only(path, scratch):
    with open(path) as f:
        rec = json.load(f)
    pid = rec['property']
    spec = load_spec(pid)
    gs = [g for g in spec.GROUPS if g['name'] == rec['group']]
    if not gs:
        print('group %s no longer exists' % rec['group'])
        return 2
    g = gs[0]
    allc = ct.load_dir(os.path.join(VERIF, 'contracts'))
    L0 = get_lowering(g['tu'], scratch)
    cfile, tab, L = build_group_c(g, L0, allc, scratch)
    inp = os.path.join(scratch, 'replay.inputs')
    with open(inp, 'w') as f:
        for k in sorted(rec['inputs']):
            f.write('%s %d\n' % (k, rec['inputs'][k]))
    verdict, text = native_replay(g, L, allc, inp, scratch, pid)
    print('replay of %s (%s): native verdict = %s' % (rec['obligation'], rec['group'], verdict))
    print(text)
    if verdict == 'fails':
        print('VIOLATION property=%s replay=%s' % (pid, path))
        return 1
    return 0 if verdict == 'passes' else 2


def main():
    ap = argparse.ArgumentParser()
    ap.add_argument('pid')
    ap.add_argument('--tier', default=os.environ.get('VERIF_TIER', 'quick'))
    ap.add_argument('--group', action='append', default=[])
    ap.add_argument('--keep', action='store_true')
    ap.add_argument('--replay')
    ap.add_argument('--jobs', type=int, default=int(os.environ.get('VF_JOBS', '12')))
    ap.add_argument('--no-evidence', action='store_true')
    a = ap.parse_args()
    seed = int(os.environ.get('VERIF_SEED', '0') or 0)
    scratch = tempfile.mkdtemp(prefix='vf_%s_' % a.pid)
    t0 = time.time()
    try:
        if a.replay:
            return replay_only(a.replay, scratch)
        spec = load_spec(a.pid)
        cfg = check_level_config(a.pid, spec)
        if cfg:
            print('UNDECIDED property=%s configuration error: %s' % (a.pid, cfg))
            return 2
        groups = [g for g in spec.GROUPS if a.tier == 'thorough' or g.get('tier', 'quick') == 'quick']
        if a.group:
            groups = [g for g in groups if g['name'] in a.group]
        for g in groups:
            if a.tier == 'thorough' and 'thorough_overrides' in g:
                g.update(g['thorough_overrides'])
        known = load_known(a.pid)
        # pre-load ASTs in the parent so forked workers share them
        tus = []
        for g in groups:
            if g['tu'] not in tus:
                tus.append(g['tu'])
        broken = None
        for tu in tus:
            try:
                get_lowering(tu, scratch)
            except (cxx2c.LoweringError, Undecided) as e:
                broken = 'extraction break: %s' % e
        results = []
        if broken:
            print('UNDECIDED property=%s %s' % (a.pid, broken))
            return 2
        import multiprocessing as mp
        ctx = mp.get_context('fork')
        with cf.ProcessPoolExecutor(max_workers=a.jobs, mp_context=ctx) as ex:
            futs = [ex.submit(process_group, (g, a.pid, scratch, a.tier, known)) for g in groups]
            for f in futs:
                results.append(f.result())
        wall = time.time() - t0
        # verdicts
        violations = []
        known_hits = []
        undecided = [r['undecided'] for r in results if r['undecided']]
        for r in results:
            for fl in r['failed']:
                k = [kf for kf in known if matches_known(kf, r['name'], fl)]
                if k:
                    known_hits.append((k[0], r, fl))
                else:
                    violations.append((r, fl))
        for kf in known:
            hit = [h for h in known_hits if h[0] is kf]
            if hit:
                print('KNOWN-FINDING: property=%s %s' % (a.pid, kf['what']))
        seen = set()
        for r, fl in violations:
            key = (r['name'], fl['obligation'])
            if key in seen:
                continue
            seen.add(key)
            if fl['replay'] is None:
                continue
            tail = '' if fl['native'] == 'fails' else ' no-failing-input-found'
            print('VIOLATION property=%s replay=%s%s' % (a.pid, fl['replay'], tail))
            print('  obligation %s (%s) in group %s: %s' % (fl['obligation'], fl['description'], r['name'], fl['native']))
        for u in undecided:
            print('UNDECIDED property=%s %s' % (a.pid, u))
        if not a.no_evidence and not a.group:
            write_evidence(a.pid, a.tier, seed, spec, groups, results, wall, violations, known_hits, undecided)
        tot = sum(r['obligations'] for r in results)
        dis = sum(r['discharged'] for r in results)
        print('property %s tier %s: %d groups, %d/%d obligations discharged, %d violations, %d known, %d undecided, %.0fs'
              % (a.pid, a.tier, len(results), dis, tot, len(seen), len(known_hits), len(undecided), wall))
        for r in results:
            print('  %-28s %-14s %5d/%-5d %6.1fs %s%s' % (r['name'], r['kind'], r['discharged'], r['obligations'], r['wall'],
                                                       r.get('vacuity') or '', ' UNDECIDED' if r['undecided'] else ''))
        if violations:
            return 1
        if undecided:
            return 2
        return 0
    finally:
        if not a.keep:
            shutil.rmtree(scratch, ignore_errors=True)
        else:
            print('scratch kept at', scratch)


def check_level_config(pid, spec):
    """The evidence level is spec.LEVEL; it must be what MANIFEST.json claims for the property, and a spec that
    declares 'proof' must not rely on a bounded group in its quick tier (bounded is never counted as proved)."""
    level = getattr(spec, 'LEVEL', 'proof')
    if level == 'proof' and any(g['kind'] == 'bounded' and g.get('tier', 'quick') == 'quick' for g in spec.GROUPS):
        return "specs/%s.py declares LEVEL='proof' but has bounded quick-tier groups" % pid
    try:
        with open(os.path.join(VERIF, 'MANIFEST.json')) as f:
            man = json.load(f)
    except (OSError, ValueError):
        return None
    for c in man.get('checks', []):
        if c.get('property_id') == pid:
            claimed = c.get('level_claimed', {}).get('category')
            if claimed != level:
                return "MANIFEST level_claimed.category is %r but specs/%s.py LEVEL is %r" % (claimed, pid, level)
    return None


def write_evidence(pid, tier, seed, spec, groups, results, wall, violations, known_hits, undecided):
    tot = sum(r['obligations'] for r in results)
    dis = sum(r['discharged'] for r in results)
    kinds = {}
    for r in results:
        k = kinds.setdefault(r['kind'], {'groups': 0, 'obligations': 0, 'discharged': 0})
        k['groups'] += 1
        k['obligations'] += r['obligations']
        k['discharged'] += r['discharged']
    # The level is the one the spec declares (and MANIFEST claims; check_level_config() keeps the two equal), in
    # every tier.  A 'proof' spec may carry extra BOUNDED groups in the thorough tier only: a bounded stand-in is
    # never counted as proved, so for a proof-level record obligations/discharged count the unbounded and
    # width-bounded groups only and the bounded extras are reported apart (bounded_stand_in, by_kind, groups).
    level = getattr(spec, 'LEVEL', 'proof')
    if level == 'proof':
        tot = sum(r['obligations'] for r in results if r['kind'] != 'bounded')
        dis = sum(r['discharged'] for r in results if r['kind'] != 'bounded')
    samples = []
    for r in results:
        for s in r['samples'][:3]:
            samples.append({'group': r['name'], **s})
    fns = sorted(set(f for r in results for f in ([r['enforce']] if r['enforce'] else [])))
    cov = {
        'obligations': tot, 'discharged': dis,
        'checker_cmd': 'goto-cc --function <harness> <lowered.c>; goto-instrument --dfcc <harness> --enforce-contract <f> '
                       '[--replace-call-with-contract <g>]... --apply-loop-contracts; cbmc --object-bits 12 '
                       + ' '.join(CBMC_CHECKS) + ' [--unwind W --unwinding-assertions] (cbmc 6.11.0, built-in SAT back end)',
        'trusted_base': getattr(spec, 'TRUSTED_BASE', []),
        'evaluations': len(results), 'distinct_nontrivial': len([r for r in results if r['obligations'] > 0]),
        'rule': 'one evaluation = one obligation group (one function enforced against its side-car contract by '
                'goto-instrument --dfcc + cbmc); non-trivial = generated at least one obligation and its '
                'ensures(false) variant failed (requires is satisfiable)',
        'samples': samples[:12] or [{'note': 'no obligations'}],
        'functions_under_contract': fns,
        'replaced_by_contract': sorted(set(x for r in results for x in r['replace'])),
        'by_kind': kinds,
        'groups': [{'name': r['name'], 'kind': r['kind'], 'bound': r['bound'], 'enforce': r['enforce'],
                    'replace': r['replace'], 'obligations': r['obligations'], 'discharged': r['discharged'],
                    'loop_obligations': r['loop_obligations'], 'vacuity': r['vacuity'],
                    'solver_wall_s': round(r['wall'], 2), 'back_end': r.get('back_end', 'cbmc 6.11.0 SAT (minisat2)'),
                    'undecided': r['undecided'],
                    'failed': [{'obligation': f['obligation'], 'native': f['native']} for f in r['failed']]}
                   for r in results],
        'proved_unbounded': kinds.get('unbounded', {}).get('discharged', 0),
        'proved_width_bounded': kinds.get('width_bounded', {}).get('discharged', 0),
        'bounded_stand_in': kinds.get('bounded', {}).get('discharged', 0),
        'undecided': undecided,
        'known_findings_hit': [h[0]['what'] for h in known_hits],
        'explanation': getattr(spec, 'EXPLANATION', ''),
    }
    if level == 'model_checking':
        cov['states'] = max(tot, 1)
        cov['transitions'] = max(tot, 1)
        cov['traces_validated_against_impl'] = sum(1 for r in results for f in r['failed'] if f['native'] == 'fails')
    ev = {'property_id': pid, 'tier': tier, 'seed': seed, 'level': level, 'coverage': cov,
          'assumptions': getattr(spec, 'ASSUMPTIONS', []), 'wall_s': round(wall, 1),
          'violations': len(violations)}
    os.makedirs(os.path.join(VERIF, 'evidence'), exist_ok=True)
    with open(os.path.join(VERIF, 'evidence', pid + '.json'), 'w') as f:
        json.dump(ev, f, indent=1)


if __name__ == '__main__':
    sys.exit(main())
